"""per property configuration of ./check: workload size per tier, coverage floors, evidence texts"""

def cfg(shards, secs, cases=0, args=None, **kw):
    d = {"shards": shards, "secs": secs, "cases": cases, "args": args or []}
    d.update(kw)
    return d

PROPS = {
    "C01": {
        "level": "exploration",
        "quick": cfg(16, 20),
        "thorough": cfg(16, 400),
        "rule": "streams g0 M1 g1 .. Mn gn generated from a threshold-aware generator (all 32 header-flag shapes x 2 framings forced in every shard, payload 0..max, garbage runs incl. 0/1/19/20/21/4096/65551 bytes with marker prefixes); every marker occurrence that is not a message start is removed mechanically from the final bytes; truth = reference decoder at the known offsets. A case is non-trivial if it has >=2 messages and >=1 non-empty garbage run; distinct = distinct (framing, multiset of header shapes, multiset of garbage length buckets).",
        "floors": {"quick": {"evaluations": 20000, "distinct_nontrivial": 1000, "header_shapes_seen": 64}, "thorough": {"evaluations": 500000, "distinct_nontrivial": 10000, "header_shapes_seen": 64}},
        "assumptions": ["reference DLT codec (harness/src/refdlt.rs) encodes/decodes per the AUTOSAR DLT layout", "start index + number of messages <= u32::MAX", "readers used: Cursor, LowMarkBufReader(low mark 65551, capacity +4096 and 512 KiB); short-read schedules are C04's business"],
    },
    "C02": {
        "level": "exploration",
        "quick": cfg(16, 20, args=["bin_every=499"]),
        "thorough": cfg(16, 300, args=["bin_every=499"]),
        "rule": "every message parsed from a generated stream (as C01, storage micros < 10^6, both source framings) is written with to_write, re-parsed, written again and decoded by the independent reference decoder; the concatenated export is re-read and re-exported; per case one message of the stream gets DLT\\x01 / DLS\\x01 written into its payload (start, end, random offset) or apid/ctid/ecu, is obtained by parsing it in front of a second message and goes through the same message oracle (C02 has no 'no embedded marker' precondition at message level); every 499th storage-framed case additionally goes through the real binary: `adlt convert in.dlt -o a.dlt` must write exactly the bytes of the message-wise export and `adlt convert a.dlt -o b.dlt` must be byte-identical to a.dlt; every 4th of these files consists of up to 40 near-maximal messages (larger than the 512 KiB read buffer of the file readers) and half of those are exported the second time into a fifo whose reader takes the first bytes, stalls for 1.6 s and then reads the rest, with a capacity of 2 messages for the channels between the stages (hook H4): back pressure through every stage must not change a byte; every 2nd of them is preceded by a lifecycle scenario (several ECUs, merges; chosen by a census guided pre-screen for the merge-flush release path) written in normal form, whose export through the binary has to be byte identical to the input. Non-trivial = original header carried WEID or WSID or MSBF or payload > 60000; distinct = (source framing, header shape, payload size bucket).",
        "floors": {"quick": {"evaluations": 10000, "distinct_nontrivial": 100, "files_compared": 5000, "bin_export_of_export": 50, "embedded_marker_msgs": 10000, "bin_exports_read_through_a_stalled_fifo": 8}, "thorough": {"evaluations": 200000, "distinct_nontrivial": 200}},
        "needs_bin": True,
        "assumptions": ["htyp version bits and the original len are not compared (to_write normalises them)", "file level comparison skipped (and counted) when the export contains an embedded marker"],
    },
    "C04": {
        "level": "exploration",
        "quick": cfg(16, 40),
        "thorough": cfg(16, 600),
        "rule": "(a) streams larger than the reader capacity (small/mixed/huge messages, garbage, 1/3 with embedded markers of the same framing) parsed through LowMarkBufReader(low mark 65551, capacity low+4096 .. 512 KiB) over a scripted source (1-byte reads, powers of two +-1, random, runs of 1 then huge, 'exactly up to low mark', alternating) vs. one Cursor over the whole stream; (b) the same stream cut after j recognised messages vs. the tail of the full run; (c) the reader alone: random histories of fill_buf/consume/read/seek (Start/Current, forwards and backwards) against the model (data,pos) with low marks 1/7/100/4096/65551. Non-trivial = data longer than the capacity (>=1 compaction) ; distinct = (part, schedule class, capacity class, framing, embedded, message size class | low mark, seeks accepted/rejected/backward).",
        "floors": {"quick": {"evaluations": 20000, "distinct_nontrivial": 500, "ab_chunked_runs": 5000, "c_back_seeks_accepted": 100000, "ab_suffix_runs": 5000}, "thorough": {"evaluations": 300000, "distinct_nontrivial": 1000}},
        "assumptions": ["SeekFrom::End is rejected by design and not part of the model", "embedded markers are of the stream's own framing (the other framing's marker is removed: framing auto-detection is not position independent by design)", "sources never return errors"],
    },
    "C05": {
        "level": "exploration",
        "quick": cfg(16, 30),
        "thorough": cfg(16, 600),
        "rule": "lifecycle scenarios (1-4 ECUs, 1-8 boots, durations/off-times/delays drawn from sets around the 1/2/10/30/60 s thresholds of the detector; modes realistic, hostile (missing/zero/beyond-reception/u32::MAX timestamps, control requests, reception going backwards, suspend/resume shifts, overlapping boots), targeted confirm-then-merge patterns, clean; 1/8 with a second pass over the pre-populated table; 1/60 with a rendezvous inflow) run through parse_lifecycles_buffered_from_stream; every message carries a unique (index, payload stamp). Non-trivial = >=1 buffered delivery and >=2 lifecycles; distinct = (mode, ecus, lifecycles, merges per branch, resumed, deliveries per release path bucket, confirmations).",
        "floors": {"quick": {"evaluations": 500000, "distinct_nontrivial": 5000, "path_LcOutMergeFlush": 1000, "path_LcOutConfirmOwn": 10000, "path_LcOutConfirmOther": 10000, "path_LcOutFinalFlush": 10000, "path_LcOutDirect": 10000, "path_LcMergeBuffered": 1000, "path_LcMergeUnbuffered": 1000}, "thorough": {"evaluations": 5000000, "distinct_nontrivial": 20000}},
        "assumptions": ["hook census (feature verif_hooks) is used as evidence of reach only, never as oracle", "message streams are at most 400 messages long (the 100 000-index regular refresh is reached through index strides)"],
    },
    "C06": {
        "level": "exploration",
        "quick": cfg(16, 40),
        "thorough": cfg(16, 600),
        "rule": "scenarios as C05; at EVERY call of the outflow closure the lifecycle of the message being delivered is looked up (a) through a ReadHandle in the delivering thread and (b) by a checker thread (rendezvous round trip while the detector is blocked inside outflow); 0-2 free running reader threads iterate the table; consumer pacing none/yield/spin/stall and pause hooks between update and refresh and before each outflow. Non-trivial = >=1 delivery through a buffered release path; distinct = (set of release paths used, pacing class, hook class, probe kind, readers, merge branches, pre-populated, ecus).",
        "floors": {"quick": {"evaluations": 20000, "distinct_nontrivial": 300, "deliveries_probed_same_thread": 1000000, "deliveries_probed_cross_thread": 500000, "path_LcOutMergeFlush": 1000, "path_LcOutConfirmOwn": 10000, "path_LcOutConfirmOther": 5000, "path_LcOutFinalFlush": 10000, "path_LcOutDirect": 10000}, "thorough": {"evaluations": 300000, "distinct_nontrivial": 1000}},
        "assumptions": ["evmap makes a refreshed entry visible to all read handles once refresh() returned (dependency contract)", "schedules are sampled (pacing, pause hooks); Miri/TSan shards in the thorough tier look for races in the executed paths"],
    },
    "C07": {
        "level": "exploration",
        "needs_bin": True,
        "quick": cfg(16, 30, args=["remote_every=20000"]),
        "thorough": cfg(16, 600, args=["remote_every=20000"]),
        "rule": "scenarios as C05 plus 1/12 'many lifecycles' traces (8-38 boots per ECU with several suspend/resume chains whose start estimates cross); after the detector returned: histogram of msg.lifecycle over all delivered messages (all passes sharing the table) vs nr_msgs of every listed lifecycle, sum, no invalidated entry, get_sorted_lifecycles_as_vec produces a permutation with every resumed lifecycle after its origin (origin id from hook accessor) and sorted by start time when no resume was detected. Every 20000th case goes through the remote front door: the trace is written to a file and opened in `adlt remote` running with channel capacities 1/2/7/64 (hook H4), so that the detector blocks in its final flush while the server loop polls the table; once the final FileInfo announced all messages, the lifecycle table the client assembled from the Lifecycles updates (latest per id) must account for every message within 10 s. Non-trivial = >=1 merge or >=1 resume; distinct = (mode, lifecycles, merges, resumed, confirmations, skipped merges, pre-populated).",
        "floors": {"quick": {"evaluations": 500000, "distinct_nontrivial": 2000, "listings_with_21_or_more_entries": 5000, "path_LcMergeUnbuffered": 1000, "remote_tables_checked": 40}, "thorough": {"evaluations": 5000000, "distinct_nontrivial": 5000}},
        "assumptions": ["runs in which the detector panics are C05 violations and are only counted here"],
    },
    "C08": {
        "level": "exploration",
        "quick": cfg(16, 30),
        "thorough": cfg(16, 600),
        "rule": "clean traces: 1-4 ECUs interleaved by reception time / arbitrarily / in blocks, 1-8 boots each, one constant delay per boot (0..70 s), arbitrary message order within a boot, off-time >= 1 ms, first timestamp 0 and boots of 1-2 messages included, timestamps multiples of 0.1 ms; stream order and reception order both separate consecutive boots. Ground truth map message -> (ECU, boot) vs lifecycle ids; start = boot+delay, end = start+max timestamp, nr_msgs. 1/10 of the traces are generated inside the known-finding class (calculated start of a boot not after the calculated end of the previous one). Non-trivial = >=2 boots on one ECU; distinct = (ecus, boots, resume flags, class, delay pattern).",
        "floors": {"quick": {"evaluations": 500000, "distinct_nontrivial": 5000, "traces_outside_overlap_class": 400000, "resume_flagged_lifecycles": 10000}, "thorough": {"evaluations": 5000000, "distinct_nontrivial": 10000}},
        "assumptions": ["the exactness of start/end relies on timestamps being multiples of 0.1 ms (the resolution of DLT timestamps)"],
    },
    "C09": {
        "level": "exploration",
        "quick": cfg(16, 15),
        "thorough": cfg(16, 300),
        "rule": "families of 0-12 sources (thorough: up to 2000, mostly empty) with 0-200 messages each, reception times equal / strictly increasing / random / increasing with heavy ties, arbitrary source indices, start index incl. u32::MAX - n; each message carries (source, position); checked: SortingMultiReaderIterator::new / new_or_single_it and SequentialMultiIterator::new / new_or_single_it (iterator and Vec based). The *_or_single_it constructors also get their sources through adapters without an exact size hint (filter, from_fn). Non-trivial = >=2 non-empty sources with ties; distinct = (sources, empties, all sorted, size bucket, start class).",
        "floors": {"quick": {"evaluations": 500000, "distinct_nontrivial": 1000}, "thorough": {"evaluations": 5000000, "distinct_nontrivial": 2000, "max_sources": 500}},
        "assumptions": ["for new_or_single_it with exactly one source the documented behaviour (start_index ignored) is respected: only content and order are compared"],
    },
    "C10": {
        "level": "exploration",
        "quick": cfg(16, 20),
        "thorough": cfg(16, 400),
        "rule": "static lifecycle tables (1-6 lifecycles on 1-4 ECUs, parallel or far apart, built with Lifecycle::new + the public start_time field; in 1/3 of the cases some lifecycles are resume lifecycles created by Lifecycle::update itself (20 s reception gap, continuing uptime), 2/3 of them with a start at or up to 8 s before the start of the lifecycle they resume - the calculated time stays start of the message's own lifecycle + timestamp) and 1-300 (thorough 3000) messages; 2/3 of the cases satisfy the ordering premise by construction (reception = start + timestamp + delay, delay <= min delay, sorted by reception), the rest has arbitrary delays, unknown lifecycle ids, calculated times beyond reception, unordered reception; windows 1-10 s, min delays 0..30 s. The premise is re-checked by the model on every case. Non-trivial = >=3 messages, >=2 lifecycles and the sorter really reordered; distinct = (window, delay class, ecus, lifecycles, premise, size, control requests).",
        "floors": {"quick": {"evaluations": 500000, "distinct_nontrivial": 2000, "runs_with_premise_satisfied": 300000, "runs_where_sorting_reordered": 200000, "premise_runs_with_resume_lifecycle_starting_before_the_resumed_one": 30000}, "thorough": {"evaluations": 5000000, "distinct_nontrivial": 5000}},
        "assumptions": ["lifecycle start times < 2^52 us; the u64::MAX marker of merged lifecycles is never published", "windows_size_secs >= 1 as the statement says"],
    },
    "C11": {
        "level": "exploration",
        "quick": cfg(16, 25),
        "thorough": cfg(16, 400),
        "exhaustive_key": "sweep_all_256_type_bytes",
        "rule": "abstract filters are rendered into every front end that can express them (JSON with explicit or auto-detected regex flags, dlt-viewer DLF XML, dlt-convert 'APID CTID ' cells, and from_json(to_json(f))) and Filter::matches is compared with a 40-line specification whose regex criteria come from a catalogue of (pattern, Rust predicate) pairs, so the oracle never runs a regex engine. Part 1 sweeps the small universe completely: every single-criterion filter (10 literal ids and 8 regexes x ecu/apid/ctid, all 256 type values, 8 mstp values, all level bounds and pairs, 11 payload texts and 9 payload regexes (incl. one that switches the case flag inside the pattern, (?-i)hello (?i)world, which must survive to_json/from_json of a case-insensitive filter; incl. criteria that begin or end with a blank or are a single blank, which tell a front end that trims the criterion from one that keeps it) x case flag, lifecycle lists, 16 apid+ctid pairs) x not x enabled against a fixed message universe (ids short/full, with and without extended header, type bytes: thorough all 256, quick every 7th plus 8 special). Part 2 draws random criteria subsets and random messages. Non-trivial = filter with >=1 matching and >=1 non-matching message; distinct = (kind, enabled, not, per criterion variant, front ends expressible).",
        "floors": {"quick": {"evaluations": 100000, "distinct_nontrivial": 500, "pairs_json": 10000000, "pairs_dlf": 3000000, "pairs_convert-format": 10000, "sweep_filters": 1500, "dlf_filters_with_blank_edged_payload_criterion": 300}, "thorough": {"evaluations": 1000000, "distinct_nontrivial": 1000, "sweep_all_256_type_bytes": 1}},
        "assumptions": ["ids in filters and messages are printable ASCII, NUL padded (regexes run on the 4 raw bytes)", "ambiguous encodings are not generated: '----' cells of the convert format, DLF payload texts with leading/trailing blanks or empty", "the ECU:APID:CTID expression front end lives in the binary and is exercised by C14 (--eac)"],
    },
    "C12": {
        "level": "exploration",
        "quick": cfg(16, 25),
        "thorough": cfg(16, 400),
        "rule": "sets of 0-8 abstract filters of every kind (positive/negative/marker/event), enabled or not, negated or not, overlapping and duplicated, against streams of 0-500 messages; filter_as_streams (forwarded messages, passed+filtered) and the set matcher match_filters built through StreamContext::from (stream and query) incl. filtered_msgs after feeding process_stream_new_msgs in random batches; every 16th case additionally through ExportPlugin::from_json -> plugins_process_msgs -> exported file (one info message followed by exactly the kept messages in order, byte compared); oracle = spec_matches + keep rule. (d) every 16th case the Export plugin with `lifecyclesToKeep`: lifecycles from the real detector on a clean scenario, one of them named by ECU and a 1 us window around its final start/end, 0-3 user filters (negative filters often with their own lifecycle criterion: none, empty, the target, random ids): exported = messages of that lifecycle that the filter set keeps, in order, after one info message. Non-trivial = >=1 enabled positive and >=1 enabled negative filter and both outcomes observed; distinct = multiset of (kind, enabled, negated).",
        "floors": {"quick": {"evaluations": 10000, "distinct_nontrivial": 500, "agreement_checks": 300000, "export_plugin_files_compared": 800, "export_lifecycles_to_keep_files_compared": 800}, "thorough": {"evaluations": 500000, "distinct_nontrivial": 1000}},
        "assumptions": ["disabled filters reach match_filters only through the front doors that drop them (documented precondition of that function)"],
    },
    "C13": {
        "level": "exploration",
        "needs_bin": True,
        "quick": cfg(16, 45, timeout_factor=6),
        "thorough": cfg(16, 900, timeout_factor=3),
        "rule": "pipelines assembled from the public stage functions (producer -> parse_lifecycles_buffered_from_stream -> plugins_process_msgs -> optional buffer_sort_messages -> optional filter_as_streams -> consumer), every edge a sync_channel of capacity 0/1/2/3/16/1024 (uniform or mixed) written through sync_sender_send_delay_if_full; producer bursts/stalls, consumer stalls (us..400 ms), pause hooks before send and before lifecycle outflow; 1/5 with the consumer dropped after 0/1/mid/last messages; half of the pipelines run the real Export plugin (lifecyclesToKeep) in the plugin stage, which forwards every message and looks each new lifecycle id up in the shared table when the message reaches it; 2/3 of the scenarios are chosen by a census guided pre-screen (synchronous detector run that took the merge/merge-flush/confirm-other paths with >= 2 ECUs). Reference = same stages with unbounded channels. Every 8th case runs the real `adlt convert -o` with ADLT_VERIF_CHAN_CAP in {0,1,2,7} against default capacities. Non-trivial = >=20 full-channel waits observed (hook census); distinct = (capacities, stages, pacing classes, drop, hook class, waits bucket).",
        "floors": {"quick": {"evaluations": 150, "distinct_nontrivial": 40, "full_channel_waits": 10000, "early_consumer_drops": 15, "binary_convert_runs": 10, "pipelines_with_export_plugin": 40, "scenarios_selected_by_census": 30}, "thorough": {"evaluations": 5000, "distinct_nontrivial": 300}},
        "assumptions": ["termination after consumer drop is decided with a generous bound (120 s); the helper's 10 ms sleep per full channel bounds the throughput, so streams are <= 300 messages", "schedule independence is demanded for the unsorted pipeline only; the sorted pipeline must be a permutation with the same table"],
    },
    "C18": {
        "level": "exploration",
        "quick": cfg(16, 25),
        "thorough": cfg(16, 400),
        "rule": "argument lists (0-12 values: bool, u8..u64, i8..i64 with extremes, f32/f64 bit patterns incl. NaN payloads/+-inf/-0.0/subnormals, UTF-8 strings incl. empty/NUL/control/multi-byte/65533..65536 bytes, ASCII strings with arbitrary bytes 0x00-0xff, raw data incl. empty and 65532..65536 bytes (a length that does not fit the 16 bit length field must be refused by the serializer: Ok = violation), 'utf8' strings with invalid UTF-8) encoded by (a) the serde Serializer, (b) payload_from_args in both byte orders, (c) the harness' own encoder in both byte orders; decoded with `for arg in &msg` (count, type_info, raw bytes) and rendered with payload_as_text vs an independent canonical formatter (own windows-1252 table); EVERY truncation point of every payload <= 4000 bytes and one detectable single-field corruption per sample (no type bit, VARI, FIXP, impossible width, length beyond payload) must decode to a prefix; random bit flips must not panic. Non-trivial = >=2 different argument types; distinct = type sequence.",
        "floors": {"quick": {"evaluations": 1000000, "distinct_nontrivial": 20000, "truncation_points": 50000000, "corruptions": 1000000, "unrepresentable_lengths_refused": 200}, "thorough": {"evaluations": 10000000, "distinct_nontrivial": 50000}},
        "assumptions": ["float rendering is compared with std Display of the same value (decimal form is std's)", "corruptions that merely change a value or re-frame later bytes are only checked for 'no panic'"],
    },
    "C20": {
        "level": "exploration",
        "quick": cfg(16, 30),
        "thorough": cfg(16, 400),
        "rule": "(a) byte strings of 0-600 bytes split into 1-8 volumes incl. empty first/middle/last volumes; 10-500 operations read(n) (n = 0, 1, small, > total) and seek(Start|Current|End) with targets in [0,len] incl. exactly at and around volume boundaries, compared step by step with std::io::Cursor over the concatenation (bytes, positions; a 0-byte read while the model has bytes left is a violation) and drained at the end; (a2) every 4th case: the stream unzip.rs really opens - the crate private cloneable reader (hook verif_cloneable_reader) over a volume chain: up to 4 clones with their own positions over the one shared, position-caching chain; read(n) / in-range seek / clone on a random clone, each clone compared with the concatenation at its own position, and after half of the reads that were cut short at a volume border an access (by the same or another clone) right behind the range that was asked for; every clone drained at the end; (b) every 40th case: zip archives written by a raw zip writer (stored entries; names: nested dirs, unicode, blanks/brackets, duplicates, empty members, directories, '../x', 'a/../../x', absolute incl. the absolute path of a pre-existing file, names that differ from the patterns only in letter case, aliases such as 'dot.dlt' + './dot.dlt' or 'a/b.dlt' + 'a/./b.dlt' that resolve to one file, members larger than the 64 KiB copy buffer; in 1/3 of the filtered extractions some requested members are already present in the target directory as an earlier extraction left them) extracted with extract_to_dir over a chain of random volumes and (every 80th case) with extract_archives from single or multi-volume files on disk with a pattern from a catalogue of (glob, Rust predicate) pairs; in 1/3 of the filtered extract_to_dir calls a rename map stores some requested members under another name (as extract_archives does for single member archives): reported, stored - and, in the re-used directory case, found already present - under the new name with the content of the member; sandbox listing before/after. Non-trivial = chain history with >=1 read cut at a volume boundary and >=1 seek, archive checked without finding; distinct = (volumes, empties, size, crossings, empty first/last) resp. archive cases.",
        "floors": {"quick": {"evaluations": 500000, "distinct_nontrivial": 5000, "archives": 8000, "archives_with_hostile_names": 4000, "volume_boundary_crossings": 500000, "empty_volumes_used": 200000, "multi_volume_archives_on_disk": 800, "members_extracted_and_compared": 8000, "clone_reader_histories": 100000, "clone_reader_accesses_right_behind_a_short_read": 100000, "renamed_members_reported_under_the_new_name": 1000, "renamed_members_already_present": 100}, "thorough": {"evaluations": 10000000, "distinct_nontrivial": 10000}},
        "assumptions": ["only the default feature set (zip) is built; libarchive formats (7z, bz2) are outside the built configuration", "seek targets beyond the end or before 0 are excluded (std leaves the former implementation-defined and the chain clamps by design)", "duplicate member names accept either member's content"],
    },
    "C17": {
        "level": "fault_enumeration",
        "quick": cfg(16, 40),
        "thorough": cfg(16, 600),
        "rule": "for every (file size class in {1, bs-1, bs, bs+1, 3bs, 3bs+1, random <= 200 KiB}) x (package size in {1, 2, 7, 1024, = file size}) a transfer is generated and EVERY single fault {none, drop k, duplicate k adjacent, duplicate k delayed, swap k/k+1, shrink k, grow k, drop announcement, drop end marker} is applied at every package position k (quick: up to 24 positions per sample incl. first/second/penultimate/last, thorough 64); the faulted transfer runs through FileTransferPlugin (via plugins_process_msgs) interleaved randomly with 0-3 other transfers (same serial on other ECU/lifecycle allowed, randomly faulted) and unrelated messages, both byte orders, names with directory parts ('../x', '/abs/y', 'a/b/c', '..', 'x/'), allowSave/keepFLDA/auto-save on and off, a pre-existing file colliding with the base name in 1/4 of the auto-save cases; observed: plugin state tree (complete/incomplete), bytes written by the save command (every index tried for incomplete transfers), auto-save directory listing and a sandbox file outside of it. distinct = (size class, package size class, fault kind, position).",
        "floors": {"quick": {"evaluations": 50000, "distinct_nontrivial": 600, "files_saved_and_compared": 20000, "files_auto_saved_and_compared": 10000, "fault_Drop": 5000, "fault_DupDelayed": 4000, "fault_Swap": 4000, "fault_DropFlst": 800}, "thorough": {"evaluations": 1500000, "distinct_nontrivial": 3000}},
        "assumptions": ["'announcement dropped' is expected complete only through the documented recovery; both outcomes are accepted, but a reported completion must still save the identical content", "every generated transfer announces its true size (file size 0 'unknown' is not generated)"],
    },
    "C19": {
        "level": "exploration",
        "quick": cfg(16, 30),
        "thorough": cfg(16, 400),
        "rule": "1/6 of the cases: a FileTransfer plugin with a random apid/ctid restriction and keepFLDA on/off processes data packages, announcements, end markers and near misses (other last argument, 4 arguments, utf8 tags, non verbose, other level, no extended header) of the configured and of other applications: exactly the data packages of the configured application are dropped when keepFLDA is off, everything else is forwarded unchanged and in order. 1/2 of the cases: a random non-empty subset of {NonVerbose, SomeIp, CAN, Muniic, Rewrite, NonVerbose with the harness' own FIBEX (harness/fibex/nv_rich.xml: one frame per signal type S_UINT8..S_RAW, a 17-value frame, text-only and empty frames, ECU EcuR)} in random order, created through factory::get_plugin from the repository's FIBEX/JSON/cfg files, processes 20-220 messages of mixed traffic (non-verbose ids of the FIBEX files and near misses with/without extended header and payloads of exactly / one less / one more than the frame's byte length, SOME/IP-like and CAN-like network traces incl. truncated frames, 13-argument Muniic messages, complete well-formed segmented SOME/IP transfers (NWST, all NWCH in order, NWEN), SYS/JOUR texts matching and not matching the rewrite regex, control messages, ordinary logs; both byte orders): conservation monitor with allowed-change mask {payload_text; extended header may appear when missing; timestamp only if Rewrite is active}. 1/3: AnonymizePlugin on lifecycle scenarios (1/10 of the log messages without any payload) with ECU ids incl. ids that look like pseudonyms (E001..E003 in random first-seen order) and 1-900 APIDs/CTIDs: mapping functions and injectivity for ecu / (ecu,apid) / (ecu,apid,ctid), times untouched, and lifecycle detection on the re-exported anonymised trace vs the original (same partition of messages, same start/end/nr_msgs up to the ECU renaming). Non-trivial = >=1 plugin changed a text resp. >=2 ECUs and >=2 lifecycles; distinct = (plugin order, changed-text bucket) resp. (ecus, apids, lifecycles, mode, position of E001).",
        "floors": {"quick": {"evaluations": 100000, "distinct_nontrivial": 1000, "messages_with_changed_text": 1000000, "text_changed_traffic_class_0": 50000, "text_changed_traffic_class_1": 50000, "text_changed_traffic_class_2": 50000, "text_changed_traffic_class_3": 10000, "text_changed_traffic_class_4": 50000, "anon_lifecycle_tables_compared": 20000, "file_transfer_drop_cases": 10000}, "thorough": {"evaluations": 1000000, "distinct_nontrivial": 3000}},
        "assumptions": ["plugin configuration = the files shipped in /repo/tests (fibex1.xml, non_verbose*.xml, rewrite.cfg, muniic/min.json) plus the well-formed harness FIBEX nv_rich.xml", "pseudonym capacity (3 digits) is respected by the generator", "FileTransfer/Export plugins may drop messages by design and are covered by C17 / C12"],
    },
    "C03": {
        "level": "exploration",
        "quick": cfg(16, 45, timeout_factor=8),
        "thorough": cfg(16, 900, timeout_factor=3),
        "rule": "inputs: windows of the repository example files (dlt/asc/txt/log) and generated rich traces (verbose typed arguments, non-verbose FIBEX ids (payload exactly / one less / one more than the frame length), control requests/responses (1/4 under the CAN plugin's log-info ids CAN/TC) incl. GET_LOG_INFO status 3-8 with descriptions, GET_SW_VERSION, unregister/connection/timezone, verbose control messages with short arguments, complete file transfers and file transfers with boundary valued sizes/package counts/package numbers, SOME/IP- and CAN-like network traces, segmented SOME/IP transfers (NWST/NWCH/NWEN with chunk counts and sizes from {0,1,2,...,0xfffe,0xffff}, out-of-sequence chunk numbers, malformed ids), SYS/JOUR texts, Muniic 13-argument messages, all header shapes, reboots) under 1-4 mutations: bit flip, byte set, splice, truncation (also at structural boundaries), insertion, deletion and field-targeted rewrites (len, htyp, noar, msin, timestamp, storage seconds, first payload words, string/raw lengths, status bytes) with values 0/1/7/0xffff/0x7fffffff/0x80000000/u32::MAX/random; serial streams; grammar-based lines for ASC (CAN/CANFD/ErrorFrame/date/BusMapping with out-of-range numbers), logcat (monotonic + threadtime, 19-digit seconds, odd fractions) and generic log (non-ASCII / 70000-char / colliding tags, overflowing dates). Every input runs the WHOLE chain in an isolated worker process: reader for its extension -> header/payload text, argument iteration, to_write -> EacStats -> lifecycle detection -> listing -> time sort -> 9 filters covering every criterion -> plugins (FileTransfer allowSave on/off, NonVerbose with the repository FIBEX and with the harness' FIBEX of all signal types, SomeIp, CAN, Muniic, Rewrite, Anonymize); panics are captured per stage, worker death (signal/abort) and stalls are detected by the supervisor and confirmed on the single input, the largest single allocation request is compared with 64 MiB + 1024*|input| unless it equals an input-independent baseline request. Non-trivial = >=1 message reached lifecycle detection and the plugins; distinct = (format, origin, first/last mutation operator, log2 messages).",
        "floors": {"quick": {"evaluations": 30000, "distinct_nontrivial": 1000, "format_asc": 4000, "format_txt": 4000, "format_log": 2500, "format_dlt": 15000, "inputs_reaching_lifecycle_and_plugins": 25000}, "thorough": {"evaluations": 2000000, "distinct_nontrivial": 3000}},
        "assumptions": ["builds use overflow-checks and debug-assertions, so an arithmetic overflow is observable as a panic", "a worker killed without a reproducible single-input failure is inconclusive, never a violation", "BLF input and the libarchive feature are outside the built configuration"],
    },
    "C15": {
        "level": "exploration",
        "needs_bin": True,
        "quick": cfg(16, 60, timeout_factor=6),
        "thorough": cfg(16, 900, timeout_factor=3),
        "rule": "websocket sessions against the real `adlt remote` binary (one server per worker, restarted every 8 sessions with a different pacing: parser pause 5-45 us per message or channel capacity 1/2/16 through hook H4): histories of 5-60 commands drawn from a grammar over open (small file, 150 000-message file = parsing in progress, zip archive, text file named .zip, truncated zip; 1/5 with plugin settings: valid, unknown plugin, wrong typed or unreadable directories; 1/6 of the sessions start with a script: open 200-500 copies of the repository's lc_ex002.zip plus a 30 MB archive, create a stream at once and use its id in well-formed and malformed id commands, so that they arrive while the archives are still being extracted; 1/8 of the other sessions start with open, pause, 2-4 queries (or a stream), resume, so that several queries end in the same server round; 1/10 with 2-3 active plugins of the same name followed by plugin_cmd for that name)/close/pause/resume/stream/query/stop/stream_change_window/stream_binary_search/stream_search/plugin_cmd/fs (now and then padded to 17-20 MiB in one websocket frame; stat/readDirectory/unknown sub-commands on directories and on archive paths `<archive>!/<path within>` of a valid zip, a text file named .zip and a truncated zip) with live, stale, foreign and malformed ids, missing arguments, broken JSON, wrong JSON types, empty and unknown commands. Client-side session model {file open, live stream ids, live query ids}; after each command exactly one reply frame (ok:/err: naming the command, or the unknown-command notice) within 60 s, replies agree with the model where it is determinate, a final 500 ms quiet period contains no reply, the process is alive and its stderr has no panic. Non-trivial = history with >=1 malformed and >=1 stateful command; distinct = de-duplicated command-kind sequence.",
        "floors": {"quick": {"evaluations": 150, "distinct_nontrivial": 100, "commands": 5000, "closes_while_file_open": 200, "cmd_search_malformed": 100, "cmd_stream-bad_malformed": 100, "cmd_change_window": 150, "sessions_with_commands_during_archive_extraction": 20, "sessions_with_queries_created_while_paused": 15}, "thorough": {"evaluations": 4000, "distinct_nontrivial": 2000}},
        "assumptions": ["ids of queries disappear asynchronously when they are done: for query ids only 'a reply arrives' is checked, not found/not-found", "a reply missing after 60 s on a machine that is otherwise responsive is a violation; failure to start or connect to the server is inconclusive"],
    },
    "C16": {
        "level": "exploration",
        "needs_bin": True,
        "quick": cfg(16, 75, timeout_factor=6),
        "thorough": cfg(16, 900, timeout_factor=3),
        "rule": "first third of the budget, library level: StreamContext built from JSON (stream/query, 0-3 enabled filters of every kind, windows) driven exactly as the server loop drives process_stream_new_msgs, with arrival batches {0, 1, chunk-1, chunk, chunk+1, random} and chunk limits {1,2,7,63,64,65,1000,3M}; after EVERY step filtered_msgs must equal the specification's matches below all_msgs_last_processed_len (queries truncated to window end). Rest of the budget, binary level: sessions against `adlt remote` (parser pacing / small channels through hook H4) on generated logs of 37/700/20000 verbose messages: stream and query windows (empty, beyond the end, whole, inside; on the 20000-message log half of the queries ask for everything), streams created before and after parsing finished, window changes (new id), search paging with page sizes 1-50 (or 1/2..1/10 of the stream) from arbitrary start positions until next_search_idx is absent (1/6 of the searches start 1-6 positions before the end of the stream with pages of 1-3 and, in half of them, no search filter at all; another 1/6 derive the page size from the number of hits the specification expects - hits-1, hits, half - so that the page limit is reached exactly at the last hits), index lookups and (on a 500-message single-lifecycle log) time lookups; 1/3 of the sessions open the file time sorted (the ECUs of the logs have different uptimes, i.e. lifecycles with different start times, while the sorted order equals the file order); delivered DltMsgs are compared field by field with the file (index, reception time, timestamp, ecu/apid/ctid, mcnt, htyp, type, noar, text) and must not precede the ok: reply announcing their stream id; 1/6 of the sessions are one pass sessions (open with collect=one_pass_streams, 1-3 one_pass streams with windows and filters created while paused, resume; the server drains the messages after every round and every stream must still receive exactly its window); 1/4 of the streams run in text mode (\"binary\":false): every `stream:<id> msg(<pos>):<header>` line must carry the announced id, consecutive stream positions from the window start and the header text of the expected file message. Non-trivial = library history with active filters and more messages than the chunk limit / complete binary session; distinct = (kind, chunk, filters, size, window class) resp. session shapes.",
        "floors": {"quick": {"evaluations": 20000, "distinct_nontrivial": 300, "bin_sessions": 50, "windows_checked": 100, "window_changes_checked": 60, "searches_checked": 40, "searches_with_page_limit_at_the_last_hits": 3, "lookups_checked": 50, "messages_compared_field_by_field": 2000, "sessions_on_time_sorted_files": 10, "one_pass_streams_checked": 10}, "thorough": {"evaluations": 200000, "distinct_nontrivial": 1000, "bin_sessions": 2000}},
        "assumptions": ["queries are issued after the file was parsed (a query issued while arrival stalls is ended by the server on its first idle poll: documented design, not part of the statement)", "time lookups are checked on the monotonic log only (one ECU, one lifecycle, calculated time strictly increasing), index lookups on all logs", "a window wait that times out while the server is still parsing (slow pacing) is inconclusive"],
    },
    "C14": {
        "level": "exploration",
        "needs_bin": True,
        "quick": cfg(16, 45, timeout_factor=6),
        "thorough": cfg(16, 600, timeout_factor=3),
        "rule": "1-4 generated input files (lifecycle scenarios incl. reboots/merges, same or different ECU populations, marker-free garbage between messages, globally unique reception times so every message is identifiable in the -a output) are converted with the real binary: a reference invocation `adlt convert -a files` fixes the index -> message mapping and is validated against the generated truth (every message once, per-file order kept, consecutive indices from 0, sorted by reception time when the ECU sets differ); lifecycle ids come from the library detector on the same sequence (ids normalised to a fresh process). Then 3 option combinations per file set from {-b, -e, --lcs, --eac (1-3 ECU:APID:CTID expressions, literal or regex), -f (DLF or dlt-convert format), --sort, -a/-x/-s/none, -o, permuted file arguments}: the emitted index list must equal window AND lifecycle AND filter selection of the specification (a permutation for --sort), the -o file must decode with the reference decoder to exactly those messages in normal form, and without style the number of listed lifecycles must equal the detector's. Non-trivial = >=2 selection options; distinct = option sets and option pairs (pairwise coverage).",
        "floors": {"quick": {"evaluations": 300, "distinct_nontrivial": 80, "invocations": 1200, "output_files_decoded": 500, "lifecycle_listings_compared": 15}, "thorough": {"evaluations": 15000, "distinct_nontrivial": 250}},
        "assumptions": ["ties between different files at equal reception time are not generated (all reception times are unique)", "payload text criteria are skipped when the input contains non-verbose messages (their text is not known by construction)", "TZ=UTC"],
    },
}

# sanitizer / interpreter phases (thorough tier; entries with quick=True also run in the quick tier)
def ph(kind, secs, args=None, shards=16, quick=False, **kw):
    d = {"kind": kind, "secs": secs, "args": args or [], "shards": shards, "quick": quick}
    d.update(kw)
    return d

PROPS["C01"]["phases"] = [ph("miri", 90, ["tiny"]), ph("asan", 60)]
PROPS["C02"]["phases"] = [ph("asan", 60)]
PROPS["C03"]["phases"] = [ph("asan", 120, timeout_factor=8), ph("valgrind", 120, ["worker=1", "from=0", "count=1000000"], env={"VMON_TINY": "1"}), ph("miri", 240, ["worker=1", "from=0", "count=1000000"], env={"VMON_TINY": "1"})]
PROPS["C04"]["phases"] = [ph("miri", 90, ["tiny"]), ph("asan", 60)]
PROPS["C05"]["phases"] = [ph("asan", 60)]
PROPS["C06"]["phases"] = [ph("miri", 45, ["tiny"], quick=True, shards=8), ph("tsan", 90), ph("miri", 120, ["tiny"])]
PROPS["C13"]["phases"] = [ph("tsan", 120), ph("miri", 120, ["tiny"])]
PROPS["C14"]["phases"] = [ph("asan-bin", 120)]
PROPS["C15"]["phases"] = [ph("asan-bin", 180, timeout_factor=4), ph("tsan-bin", 180, timeout_factor=4)]
PROPS["C16"]["phases"] = [ph("asan-bin", 180, timeout_factor=4), ph("tsan-bin", 180, timeout_factor=4)]
PROPS["C17"]["phases"] = [ph("asan", 60)]
PROPS["C18"]["phases"] = [ph("miri", 45, ["tiny"], quick=True, shards=8), ph("asan", 60), ph("miri", 120, ["tiny"])]
PROPS["C20"]["phases"] = [ph("miri", 120, ["tiny"]), ph("miri", 120, ["extract_only"], shards=8, env={"VMON_TINY": "1"}), ph("valgrind", 90, ["extract_only"]), ph("asan", 60)]


# thorough floors: at least 3x the quick floors (the thorough budgets are >= 10x the quick ones);
# structural floors (all header shapes, complete sweep) stay as they are
_STRUCT = ("header_shapes_seen", "sweep_filters")
for _pid, _p in PROPS.items():
    _q = _p.get("floors", {}).get("quick", {})
    _t = {k: (v if k in _STRUCT else v * 3) for k, v in _q.items()}
    if _pid == "C02":
        _t["distinct_nontrivial"] = 250  # the signature space is finite: 288 = framing x header shape x payload bucket
    if _pid == "C17":
        _t["distinct_nontrivial"] = 1500  # saturates at 1889 (fault kind x position class x layout)
    if _pid == "C09":
        _t["max_sources"] = 500
    if _pid == "C11":
        _t["sweep_all_256_type_bytes"] = 1
    _p.setdefault("floors", {})["thorough"] = _t
