"""per property configuration of ./check: workload size per tier, coverage floors, evidence texts"""

def cfg(shards, secs, cases=0, args=None, **kw):
    d = {"shards": shards, "secs": secs, "cases": cases, "args": args or []}
    d.update(kw)
    return d

PROPS = {
    "C01": {
        "level": "exploration",
        "quick": cfg(16, 20),
        "thorough": cfg(16, 400),
        "rule": "streams g0 M1 g1 .. Mn gn generated from a threshold-aware generator (all 32 header-flag shapes x 2 framings forced in every shard, payload 0..max, garbage runs incl. 0/1/19/20/21/4096/65551 bytes with marker prefixes); every marker occurrence that is not a message start is removed mechanically from the final bytes; truth = reference decoder at the known offsets. A case is non-trivial if it has >=2 messages and >=1 non-empty garbage run; distinct = distinct (framing, multiset of header shapes, multiset of garbage length buckets).",
        "floors": {"quick": {"evaluations": 20000, "distinct_nontrivial": 1000, "header_shapes_seen": 64}, "thorough": {"evaluations": 500000, "distinct_nontrivial": 10000, "header_shapes_seen": 64}},
        "assumptions": ["reference DLT codec (harness/src/refdlt.rs) encodes/decodes per the AUTOSAR DLT layout", "start index + number of messages <= u32::MAX", "readers used: Cursor, LowMarkBufReader(low mark 65551, capacity +4096 and 512 KiB); short-read schedules are C04's business"],
    },
    "C02": {
        "level": "exploration",
        "quick": cfg(16, 20),
        "thorough": cfg(16, 300),
        "rule": "every message parsed from a generated stream (as C01, storage micros < 10^6, both source framings) is written with to_write, re-parsed, written again and decoded by the independent reference decoder; the concatenated export is re-read and re-exported. Non-trivial = original header carried WEID or WSID or MSBF or payload > 60000; distinct = (source framing, header shape, payload size bucket).",
        "floors": {"quick": {"evaluations": 10000, "distinct_nontrivial": 100, "files_compared": 5000}, "thorough": {"evaluations": 200000, "distinct_nontrivial": 200}},
        "assumptions": ["htyp version bits and the original len are not compared (to_write normalises them)", "file level comparison skipped (and counted) when the export contains an embedded marker"],
    },
    "C04": {
        "level": "exploration",
        "quick": cfg(16, 40),
        "thorough": cfg(16, 600),
        "rule": "(a) streams larger than the reader capacity (small/mixed/huge messages, garbage, 1/3 with embedded markers of the same framing) parsed through LowMarkBufReader(low mark 65551, capacity low+4096 .. 512 KiB) over a scripted source (1-byte reads, powers of two +-1, random, runs of 1 then huge, 'exactly up to low mark', alternating) vs. one Cursor over the whole stream; (b) the same stream cut after j recognised messages vs. the tail of the full run; (c) the reader alone: random histories of fill_buf/consume/read/seek (Start/Current, forwards and backwards) against the model (data,pos) with low marks 1/7/100/4096/65551. Non-trivial = data longer than the capacity (>=1 compaction) ; distinct = (part, schedule class, capacity class, framing, embedded, message size class | low mark, seeks accepted/rejected/backward).",
        "floors": {"quick": {"evaluations": 20000, "distinct_nontrivial": 500, "ab_chunked_runs": 5000, "c_back_seeks_accepted": 100000, "ab_suffix_runs": 5000}, "thorough": {"evaluations": 300000, "distinct_nontrivial": 1000}},
        "assumptions": ["SeekFrom::End is rejected by design and not part of the model", "embedded markers are of the stream's own framing (the other framing's marker is removed: framing auto-detection is not position independent by design)", "sources never return errors"],
    },
}
