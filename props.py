"""per property configuration of ./check: workload size per tier, coverage floors, evidence texts"""

def cfg(shards, secs, cases=0, args=None, **kw):
    d = {"shards": shards, "secs": secs, "cases": cases, "args": args or []}
    d.update(kw)
    return d

PROPS = {
    "C01": {
        "level": "exploration",
        "quick": cfg(16, 20),
        "thorough": cfg(16, 400),
        "rule": "streams g0 M1 g1 .. Mn gn generated from a threshold-aware generator (all 32 header-flag shapes x 2 framings forced in every shard, payload 0..max, garbage runs incl. 0/1/19/20/21/4096/65551 bytes with marker prefixes); every marker occurrence that is not a message start is removed mechanically from the final bytes; truth = reference decoder at the known offsets. A case is non-trivial if it has >=2 messages and >=1 non-empty garbage run; distinct = distinct (framing, multiset of header shapes, multiset of garbage length buckets).",
        "floors": {"quick": {"evaluations": 20000, "distinct_nontrivial": 1000, "header_shapes_seen": 64}, "thorough": {"evaluations": 500000, "distinct_nontrivial": 10000, "header_shapes_seen": 64}},
        "assumptions": ["reference DLT codec (harness/src/refdlt.rs) encodes/decodes per the AUTOSAR DLT layout", "start index + number of messages <= u32::MAX", "readers used: Cursor, LowMarkBufReader(low mark 65551, capacity +4096 and 512 KiB); short-read schedules are C04's business"],
    },
    "C02": {
        "level": "exploration",
        "quick": cfg(16, 20),
        "thorough": cfg(16, 300),
        "rule": "every message parsed from a generated stream (as C01, storage micros < 10^6, both source framings) is written with to_write, re-parsed, written again and decoded by the independent reference decoder; the concatenated export is re-read and re-exported. Non-trivial = original header carried WEID or WSID or MSBF or payload > 60000; distinct = (source framing, header shape, payload size bucket).",
        "floors": {"quick": {"evaluations": 10000, "distinct_nontrivial": 100, "files_compared": 5000}, "thorough": {"evaluations": 200000, "distinct_nontrivial": 200}},
        "assumptions": ["htyp version bits and the original len are not compared (to_write normalises them)", "file level comparison skipped (and counted) when the export contains an embedded marker"],
    },
    "C04": {
        "level": "exploration",
        "quick": cfg(16, 40),
        "thorough": cfg(16, 600),
        "rule": "(a) streams larger than the reader capacity (small/mixed/huge messages, garbage, 1/3 with embedded markers of the same framing) parsed through LowMarkBufReader(low mark 65551, capacity low+4096 .. 512 KiB) over a scripted source (1-byte reads, powers of two +-1, random, runs of 1 then huge, 'exactly up to low mark', alternating) vs. one Cursor over the whole stream; (b) the same stream cut after j recognised messages vs. the tail of the full run; (c) the reader alone: random histories of fill_buf/consume/read/seek (Start/Current, forwards and backwards) against the model (data,pos) with low marks 1/7/100/4096/65551. Non-trivial = data longer than the capacity (>=1 compaction) ; distinct = (part, schedule class, capacity class, framing, embedded, message size class | low mark, seeks accepted/rejected/backward).",
        "floors": {"quick": {"evaluations": 20000, "distinct_nontrivial": 500, "ab_chunked_runs": 5000, "c_back_seeks_accepted": 100000, "ab_suffix_runs": 5000}, "thorough": {"evaluations": 300000, "distinct_nontrivial": 1000}},
        "assumptions": ["SeekFrom::End is rejected by design and not part of the model", "embedded markers are of the stream's own framing (the other framing's marker is removed: framing auto-detection is not position independent by design)", "sources never return errors"],
    },
    "C05": {
        "level": "exploration",
        "quick": cfg(16, 30),
        "thorough": cfg(16, 600),
        "rule": "lifecycle scenarios (1-4 ECUs, 1-8 boots, durations/off-times/delays drawn from sets around the 1/2/10/30/60 s thresholds of the detector; modes realistic, hostile (missing/zero/beyond-reception/u32::MAX timestamps, control requests, reception going backwards, suspend/resume shifts, overlapping boots), targeted confirm-then-merge patterns, clean; 1/8 with a second pass over the pre-populated table; 1/60 with a rendezvous inflow) run through parse_lifecycles_buffered_from_stream; every message carries a unique (index, payload stamp). Non-trivial = >=1 buffered delivery and >=2 lifecycles; distinct = (mode, ecus, lifecycles, merges per branch, resumed, deliveries per release path bucket, confirmations).",
        "floors": {"quick": {"evaluations": 500000, "distinct_nontrivial": 5000, "path_LcOutMergeFlush": 1000, "path_LcOutConfirmOwn": 10000, "path_LcOutConfirmOther": 10000, "path_LcOutFinalFlush": 10000, "path_LcOutDirect": 10000, "path_LcMergeBuffered": 1000, "path_LcMergeUnbuffered": 1000}, "thorough": {"evaluations": 5000000, "distinct_nontrivial": 20000}},
        "assumptions": ["hook census (feature verif_hooks) is used as evidence of reach only, never as oracle", "message streams are at most 400 messages long (the 100 000-index regular refresh is reached through index strides)"],
    },
    "C06": {
        "level": "exploration",
        "quick": cfg(16, 40),
        "thorough": cfg(16, 600),
        "rule": "scenarios as C05; at EVERY call of the outflow closure the lifecycle of the message being delivered is looked up (a) through a ReadHandle in the delivering thread and (b) by a checker thread (rendezvous round trip while the detector is blocked inside outflow); 0-2 free running reader threads iterate the table; consumer pacing none/yield/spin/stall and pause hooks between update and refresh and before each outflow. Non-trivial = >=1 delivery through a buffered release path; distinct = (set of release paths used, pacing class, hook class, probe kind, readers, merge branches, pre-populated, ecus).",
        "floors": {"quick": {"evaluations": 20000, "distinct_nontrivial": 300, "deliveries_probed_same_thread": 1000000, "deliveries_probed_cross_thread": 500000, "path_LcOutMergeFlush": 1000, "path_LcOutConfirmOwn": 10000, "path_LcOutConfirmOther": 5000, "path_LcOutFinalFlush": 10000, "path_LcOutDirect": 10000}, "thorough": {"evaluations": 300000, "distinct_nontrivial": 1000}},
        "assumptions": ["evmap makes a refreshed entry visible to all read handles once refresh() returned (dependency contract)", "schedules are sampled (pacing, pause hooks); Miri/TSan shards in the thorough tier look for races in the executed paths"],
    },
    "C07": {
        "level": "exploration",
        "quick": cfg(16, 30),
        "thorough": cfg(16, 600),
        "rule": "scenarios as C05 plus 1/12 'many lifecycles' traces (8-38 boots per ECU with several suspend/resume chains whose start estimates cross); after the detector returned: histogram of msg.lifecycle over all delivered messages (all passes sharing the table) vs nr_msgs of every listed lifecycle, sum, no invalidated entry, get_sorted_lifecycles_as_vec produces a permutation with every resumed lifecycle after its origin (origin id from hook accessor) and sorted by start time when no resume was detected. Non-trivial = >=1 merge or >=1 resume; distinct = (mode, lifecycles, merges, resumed, confirmations, skipped merges, pre-populated).",
        "floors": {"quick": {"evaluations": 500000, "distinct_nontrivial": 2000, "listings_with_21_or_more_entries": 5000, "path_LcMergeUnbuffered": 1000}, "thorough": {"evaluations": 5000000, "distinct_nontrivial": 5000}},
        "assumptions": ["runs in which the detector panics are C05 violations and are only counted here"],
    },
    "C08": {
        "level": "exploration",
        "quick": cfg(16, 30),
        "thorough": cfg(16, 600),
        "rule": "clean traces: 1-4 ECUs interleaved by reception time / arbitrarily / in blocks, 1-8 boots each, one constant delay per boot (0..70 s), arbitrary message order within a boot, off-time >= 1 ms, first timestamp 0 and boots of 1-2 messages included, timestamps multiples of 0.1 ms; stream order and reception order both separate consecutive boots. Ground truth map message -> (ECU, boot) vs lifecycle ids; start = boot+delay, end = start+max timestamp, nr_msgs. 1/10 of the traces are generated inside the known-finding class (calculated start of a boot not after the calculated end of the previous one). Non-trivial = >=2 boots on one ECU; distinct = (ecus, boots, resume flags, class, delay pattern).",
        "floors": {"quick": {"evaluations": 500000, "distinct_nontrivial": 5000, "traces_outside_overlap_class": 400000, "resume_flagged_lifecycles": 10000}, "thorough": {"evaluations": 5000000, "distinct_nontrivial": 10000}},
        "assumptions": ["the exactness of start/end relies on timestamps being multiples of 0.1 ms (the resolution of DLT timestamps)"],
    },
    "C09": {
        "level": "exploration",
        "quick": cfg(16, 15),
        "thorough": cfg(16, 300),
        "rule": "families of 0-12 sources (thorough: up to 2000, mostly empty) with 0-200 messages each, reception times equal / strictly increasing / random / increasing with heavy ties, arbitrary source indices, start index incl. u32::MAX - n; each message carries (source, position); checked: SortingMultiReaderIterator::new / new_or_single_it and SequentialMultiIterator::new / new_or_single_it (iterator and Vec based). Non-trivial = >=2 non-empty sources with ties; distinct = (sources, empties, all sorted, size bucket, start class).",
        "floors": {"quick": {"evaluations": 500000, "distinct_nontrivial": 1000}, "thorough": {"evaluations": 5000000, "distinct_nontrivial": 2000, "max_sources": 500}},
        "assumptions": ["for new_or_single_it with exactly one source the documented behaviour (start_index ignored) is respected: only content and order are compared"],
    },
    "C10": {
        "level": "exploration",
        "quick": cfg(16, 20),
        "thorough": cfg(16, 400),
        "rule": "static lifecycle tables (1-6 lifecycles on 1-4 ECUs, parallel or far apart, built with Lifecycle::new + the public start_time field) and 1-300 (thorough 3000) messages; 2/3 of the cases satisfy the ordering premise by construction (reception = start + timestamp + delay, delay <= min delay, sorted by reception), the rest has arbitrary delays, unknown lifecycle ids, calculated times beyond reception, unordered reception; windows 1-10 s, min delays 0..30 s. The premise is re-checked by the model on every case. Non-trivial = >=3 messages, >=2 lifecycles and the sorter really reordered; distinct = (window, delay class, ecus, lifecycles, premise, size, control requests).",
        "floors": {"quick": {"evaluations": 500000, "distinct_nontrivial": 2000, "runs_with_premise_satisfied": 300000, "runs_where_sorting_reordered": 200000}, "thorough": {"evaluations": 5000000, "distinct_nontrivial": 5000}},
        "assumptions": ["lifecycle start times < 2^52 us; the u64::MAX marker of merged lifecycles is never published", "windows_size_secs >= 1 as the statement says"],
    },
    "C11": {
        "level": "exploration",
        "quick": cfg(16, 25),
        "thorough": cfg(16, 400),
        "exhaustive_key": "sweep_all_256_type_bytes",
        "rule": "abstract filters are rendered into every front end that can express them (JSON with explicit or auto-detected regex flags, dlt-viewer DLF XML, dlt-convert 'APID CTID ' cells, and from_json(to_json(f))) and Filter::matches is compared with a 40-line specification whose regex criteria come from a catalogue of (pattern, Rust predicate) pairs, so the oracle never runs a regex engine. Part 1 sweeps the small universe completely: every single-criterion filter (10 literal ids and 8 regexes x ecu/apid/ctid, all 256 type values, 8 mstp values, all level bounds and pairs, 7 payload texts and 6 payload regexes x case flag, lifecycle lists, 16 apid+ctid pairs) x not x enabled against a fixed message universe (ids short/full, with and without extended header, type bytes: thorough all 256, quick every 7th plus 8 special). Part 2 draws random criteria subsets and random messages. Non-trivial = filter with >=1 matching and >=1 non-matching message; distinct = (kind, enabled, not, per criterion variant, front ends expressible).",
        "floors": {"quick": {"evaluations": 100000, "distinct_nontrivial": 500, "pairs_json": 10000000, "pairs_dlf": 3000000, "pairs_convert-format": 10000, "sweep_filters": 1500}, "thorough": {"evaluations": 1000000, "distinct_nontrivial": 1000, "sweep_all_256_type_bytes": 1}},
        "assumptions": ["ids in filters and messages are printable ASCII, NUL padded (regexes run on the 4 raw bytes)", "ambiguous encodings are not generated: '----' cells of the convert format, DLF payload texts with leading/trailing blanks or empty", "the ECU:APID:CTID expression front end lives in the binary and is exercised by C14 (--eac)"],
    },
    "C12": {
        "level": "exploration",
        "quick": cfg(16, 25),
        "thorough": cfg(16, 400),
        "rule": "sets of 0-8 abstract filters of every kind (positive/negative/marker/event), enabled or not, negated or not, overlapping and duplicated, against streams of 0-500 messages; filter_as_streams (forwarded messages, passed+filtered) and the set matcher match_filters built through StreamContext::from (stream and query) incl. filtered_msgs after feeding process_stream_new_msgs in random batches; oracle = spec_matches + keep rule. Non-trivial = >=1 enabled positive and >=1 enabled negative filter and both outcomes observed; distinct = multiset of (kind, enabled, negated).",
        "floors": {"quick": {"evaluations": 50000, "distinct_nontrivial": 500, "agreement_checks": 1000000}, "thorough": {"evaluations": 500000, "distinct_nontrivial": 1000}},
        "assumptions": ["disabled filters reach match_filters only through the front doors that drop them (documented precondition of that function)"],
    },
}
