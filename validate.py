#!/usr/bin/env python3-vt
import json, sys, glob, jsonschema
ok = True
m = json.load(open('/verif/MANIFEST.json'))
jsonschema.validate(m, json.load(open('/root/.vp/MANIFEST.schema.json')))
print('MANIFEST ok:', len(m['checks']), 'checks,', len(m.get('not_applicable', [])), 'not applicable')
s = json.load(open('/root/.vp/EVIDENCE.schema.json'))
for c in m['checks']:
    f = c['evidence_file']
    try:
        e = json.load(open(f))
        jsonschema.validate(e, s)
        print(f, 'ok', e['tier'], e['coverage']['evaluations'], e['coverage']['distinct_nontrivial'], 'violations', e.get('violations'))
    except Exception as ex:
        ok = False
        print(f, 'INVALID', str(ex)[:200])
sys.exit(0 if ok else 1)
