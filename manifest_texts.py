"""texts for MANIFEST.json per claimed property"""
HOOK_COMMITS = [
    "b525638c12b54439ad442e79710965d9e223a9fb",
    "644f8cecf948ecafb9e7627c045ec64c82809839",
    "7ccf34a546b79afa66fdb7cecdf975d670e672dc",
]
NOT_APPLICABLE = []
T = "runtime monitoring: "
TEXTS = {
    "C01": {
        "technique": T + "reference-model oracle (independent DLT codec) over the items and counters of DltMessageIterator on generated marker-free streams",
        "level_text": "Exploration: >10^6 generated streams per quick run, every one compared message-by-message and counter-by-counter against an independent reference codec; all 64 header-shape x framing combinations are forced in every worker. Held on what was observed, not a proof.",
        "level_note": "trusts the 150-line reference codec and the mechanical marker scan of the generator; short-read schedules are covered by C04",
    },
    "C02": {
        "technique": T + "round-trip oracle (write, re-parse, re-write, independent decode) on every message parsed from generated streams; file-level export-of-export comparison",
        "level_text": "Exploration: every parsed message of >10^6 generated streams is written, re-read and re-written; bytes are additionally decoded by the independent reference decoder.",
        "level_note": "htyp version bits / original len are outside the statement; binary-level `adlt convert -o` round trip is part of C14",
    },
    "C04": {
        "technique": T + "differential oracle over scripted short-read schedules and suffix positions (same real code, different chunking) + reference-model (data,pos) monitor of every fill_buf/consume/read/seek of LowMarkBufReader",
        "level_text": "Exploration: tens of thousands of >70 KB streams per quick run parsed under adversarial read schedules and compared message-by-message with the whole-buffer parse; millions of reader operations checked against a two-variable model.",
        "level_note": "schedules and histories are sampled; the whole-buffer run is anchored to the generator truth for marker-free streams",
    },
}
