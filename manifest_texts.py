"""texts for MANIFEST.json per claimed property"""
HOOK_COMMITS = [
    "b525638c12b54439ad442e79710965d9e223a9fb",
    "644f8cecf948ecafb9e7627c045ec64c82809839",
    "7ccf34a546b79afa66fdb7cecdf975d670e672dc",
    "c3593bab13c561434885605f56c41d038d8e7d9a",
]
NOT_APPLICABLE = []
T = "runtime monitoring: "
TEXTS = {
    "C01": {
        "technique": T + "reference-model oracle (independent DLT codec) over the items and counters of DltMessageIterator on generated marker-free streams",
        "level_text": "Exploration: >10^6 generated streams per quick run, every one compared message-by-message and counter-by-counter against an independent reference codec; all 64 header-shape x framing combinations are forced in every worker. Held on what was observed, not a proof.",
        "level_note": "trusts the 150-line reference codec and the mechanical marker scan of the generator; short-read schedules are covered by C04",
    },
    "C02": {
        "technique": T + "round-trip oracle (write, re-parse, re-write, independent decode) on every message parsed from generated streams; file-level export-of-export comparison",
        "level_text": "Exploration: every parsed message of >10^6 generated streams is written, re-read and re-written; bytes are additionally decoded by the independent reference decoder.",
        "level_note": "htyp version bits / original len are outside the statement; binary-level `adlt convert -o` round trip is part of C14",
    },
    "C03": {
        "technique": T + "isolated-worker crash monitor: panic hook with site/message capture per pipeline stage, supervisor watching exit status / signals / stalls, counting global allocator; ASan, valgrind and Miri shards repeat the corpus in thorough",
        "level_text": "Exploration: >10^5 mutated and grammar-generated inputs per quick run through the complete ingestion/analysis chain; every panic site is reported with its input; known genuine panics are listed by (site, message) and everything else fails the check.",
        "level_note": "a clean run is not a proof of absence; reach is reported per format and stage",
    },
    "C04": {
        "technique": T + "differential oracle over scripted short-read schedules and suffix positions (same real code, different chunking) + reference-model (data,pos) monitor of every fill_buf/consume/read/seek of LowMarkBufReader",
        "level_text": "Exploration: tens of thousands of >70 KB streams per quick run parsed under adversarial read schedules and compared message-by-message with the whole-buffer parse; millions of reader operations checked against a two-variable model.",
        "level_note": "schedules and histories are sampled; the whole-buffer run is anchored to the generator truth for marker-free streams",
    },
    "C05": {
        "technique": T + "conservation monitor over unambiguous histories (unique message ids) at the outflow closure of the real detector + final table lookup; hook census as evidence of reach",
        "level_text": "Exploration: >10^6 generated threshold-aware scenarios per quick run; exactly-once/in-order/unchanged and assignment validity checked for every delivered message; all five release paths and both merge branches are required to be reached (coverage floor).",
        "level_note": "streams <= 400 messages; the detector's 60 s constants are reached through the generator's threshold sets, not through long streams",
    },
    "C06": {
        "technique": T + "invariant probe at every delivery point (same-thread and cross-thread evmap lookup while the detector is blocked in outflow) under consumer pacing and injected pauses; Miri/TSan shards in thorough",
        "level_text": "Exploration: millions of delivery points probed per quick run, each through two readers; schedule diversity from pacing classes, pause hooks and free-running reader threads.",
        "level_note": "trusts evmap's publication contract; interleavings are sampled",
    },
    "C07": {
        "technique": T + "end-of-run consistency monitor: histogram of delivered lifecycle ids vs published table, listing order oracle (resume origin through hook accessor)",
        "level_text": "Exploration: >10^6 scenarios per quick run incl. confirm-then-merge patterns, pre-populated tables and 20-100 lifecycle listings with crossing resume chains.",
        "level_note": "listing oracle uses the hook accessor verif_resume_origin(); binary-level listing (`adlt convert`) is exercised by C14",
    },
    "C08": {
        "technique": T + "ground-truth oracle (generator knows boot, delay, timestamps) over lifecycle ids of delivered messages and the final table",
        "level_text": "Exploration: >10^6 clean traces per quick run compared exactly (ids, start, end, counts); the input class where the heuristic cannot separate boots is generated on purpose, evaluated and reported as known finding.",
        "level_note": "ground truth comes from the generator; exact arithmetic because all times are multiples of 0.1 ms",
    },
    "C09": {
        "technique": T + "exactly-once / per-source-order / numbering oracle over unambiguous histories (every message tagged with source and position) of the four merge constructors",
        "level_text": "Exploration: >10^6 generated source families per quick run incl. heavy ties, empty sources and start indices near u32::MAX.",
        "level_note": "sources are in-memory iterators; the file-level merge is exercised by C14",
    },
    "C10": {
        "technique": T + "permutation oracle on every run and ordering oracle (by model-computed calculated time, ties by original index) on the runs whose premise the model confirms",
        "level_text": "Exploration: >10^6 generated streams and tables per quick run; the ordering premise is checked by the model before the ordering oracle votes.",
        "level_note": "tables are static (built through the public API), as the sorter caches lifecycle start times",
    },
    "C11": {
        "technique": T + "specification oracle (criteria conjunction with catalogue predicates instead of a regex engine) over Filter::matches for filters built through every library front end; complete sweep of the small universe plus random criteria subsets",
        "level_text": "Exploration, exhaustive on the small universe in the thorough tier (all single-criterion filters x all 256 type bytes x id universe x negation x enabled); >10^7 filter/message pairs per front end in quick.",
        "level_note": "trusts the 40-line specification and the predicate catalogue; ids are printable ASCII",
    },
    "C12": {
        "technique": T + "specification oracle for the keep rule over both implementations (stream filter of convert, set matcher of remote built through its JSON front door) incl. order/count conservation and agreement between the two",
        "level_text": "Exploration: >10^5 filter sets per quick run, every message decision compared with the specification, forwarded sequence and counters checked.",
        "level_note": "single-filter semantics are C11's business (same specification function is used here)",
    },
    "C13": {
        "technique": T + "differential oracle: bounded pipeline (tiny capacities, stalls, pause hooks, consumer drop) vs unbounded reference, at library level and with the real binary; watchdog on stage termination; hook census of full-channel waits as evidence",
        "level_text": "Exploration: >10^3 pipelines per quick run, each observed under >=1 adversarial pacing; >10^4 full-channel waits observed; termination of every stage after consumer drop checked with a 120 s bound.",
        "level_note": "thread schedules are sampled, not enumerated; plugins stage runs without configured plugins (plugin semantics are C19)",
    },
    "C18": {
        "technique": T + "round-trip oracle over three encoders and the real argument iterator + independent canonical text formatter; exhaustive truncation points per sample; detectable single-field corruptions must yield a prefix",
        "level_text": "Exploration with per-sample exhaustive truncation: >10^6 argument lists and >5*10^7 truncation points per quick run.",
        "level_note": "trusts the 30-line canonical formatter and the harness encoder",
    },
    "C20": {
        "technique": T + "reference-model monitor (std::io::Cursor over the concatenation) of every read/seek of SeekableChain and, per clone, of the crate private cloneable reader that unzip.rs wraps around the chain (hook verif_cloneable_reader); sandbox monitor of extraction (reported paths, contents vs archive members written by an independent raw zip writer, directory listing before/after)",
        "level_text": "Exploration: >10^6 read/seek histories and >2*10^4 hostile archives per quick run; Miri and valgrind shards for the extraction copy loop in thorough.",
        "level_note": "archives are 'stored' zip files from the harness' own writer; compression paths of the zip crate are dependency code",
    },
    "C17": {
        "technique": T + "fault enumeration: every single fault at every package position of generated transfers, oracle = ground truth completeness + byte comparison of saved / auto-saved files + sandbox directory listing",
        "level_text": "Fault enumeration: the complete single-fault set at every position for the size x package-size grid, >10^5 faulted runs per quick check, each with the observable outcomes (tree state, save command, auto-save directory) compared with the ground truth.",
        "level_note": "multi-fault combinations are only sampled (through the randomly faulted concurrent transfers)",
    },
    "C19": {
        "technique": T + "conservation monitor with an allowed-change mask over plugins_process_msgs for every subset/order of the real decoding plugins; anonymisation: function/injectivity monitors + differential lifecycle detection (original vs anonymised re-export)",
        "level_text": "Exploration: >10^5 plugin pipelines and >2*10^4 anonymisation runs per quick check; every traffic class is required to actually change texts (coverage floor), so the plugins are demonstrably decoding while the monitor watches.",
        "level_note": "decoding correctness of the plugins (the produced text) is not part of the property and not checked",
    },
    "C15": {
        "technique": T + "client-side session model (trace-specification monitor) over websocket frames of the real server binary under generated hostile command histories; liveness restated as bounded progress (reply within 60 s); stderr panic monitor",
        "level_text": "Exploration: >10^4 commands per quick run in hundreds of sessions; every reply is checked against the model, every session ends with a quiet period and a liveness/stderr check.",
        "level_note": "command histories and timing relative to parsing are sampled; TSan/ASan builds of the server are used in the thorough tier",
    },
    "C16": {
        "technique": T + "specification oracle over stream state after every batching step (library) and over decoded websocket frames of the real server (binary): exactly-once/in-order window delivery, announce-before-data ordering, paging coverage, lookup results",
        "level_text": "Exploration: >2*10^4 library histories (every step checked) and >150 binary sessions per quick run with field-by-field comparison of every delivered message.",
        "level_note": "server side batching is influenced through hook H4 (parser pacing, channel capacity), not enumerated",
    },
    "C14": {
        "technique": T + "black-box monitor of the real `adlt convert` binary: specification oracle (window AND lifecycles AND filters) over parsed stdout and the reference-decoded -o file, reference invocation validated against generated truth, lifecycle oracle from the library detector",
        "level_text": "Exploration: >4000 invocations per quick run over generated multi-file inputs with pairwise option coverage tracked as distinct cases.",
        "level_note": "the unfiltered merged order is taken from a validated reference invocation of the same binary",
    },
}
