"""additional phases of a check: sanitizer / interpreter shards (filled in per property)"""

def run_phase(ph, pid, tier, seed, tmpdir, log):
    kind = ph["kind"]
    raise RuntimeError(f"unknown phase {kind}")
