"""additional phases of a check: sanitizer / interpreter shards.

Every phase re-runs (a small version of) the property's workload with the same monitors under
an instrumented build: Miri (tree borrows), AddressSanitizer, ThreadSanitizer, valgrind memcheck.
A sanitizer report whose backtrace has a frame in /repo/src is a violation of the property whose
workload it is; reports entirely inside dependencies are notes. A build failure or a shard that
ran nothing makes the phase inconclusive (never a violation).
"""
import json, os, re, subprocess, time, shutil

VERIF = os.path.dirname(os.path.abspath(__file__))
BUILD = os.path.join(VERIF, ".build")
HARNESS = os.path.join(VERIF, "harness")
NCPU = os.cpu_count() or 4
BASE_ENV = dict(os.environ, CARGO_NET_OFFLINE="true", TZ="UTC")
TARGET = "x86_64-unknown-linux-gnu"


def _limit_file_size():
    import resource
    resource.setrlimit(resource.RLIMIT_FSIZE, (1 << 30, 1 << 30))


def _run(cmd, env=None, cwd=None, timeout=None):
    try:
        r = subprocess.run(cmd, stdout=subprocess.PIPE, stderr=subprocess.STDOUT, text=True, env=env or BASE_ENV, cwd=cwd, timeout=timeout)
        return r.returncode, r.stdout
    except subprocess.TimeoutExpired as e:
        return None, (e.stdout or "") if isinstance(e.stdout, str) else ""


def build(kind, log):
    """returns (path to vmon or None, note)"""
    t = time.time()
    if kind == "asan":
        env = dict(BASE_ENV, RUSTFLAGS="-Zsanitizer=address -Cforce-frame-pointers=yes")
        cmd = ["cargo", "+nightly", "build", "--release", "--offline", "--target", TARGET, "--target-dir", os.path.join(BUILD, "asan")]
        exe = os.path.join(BUILD, "asan", TARGET, "release", "vmon")
    elif kind == "tsan":
        env = dict(BASE_ENV, RUSTFLAGS="-Zsanitizer=thread")
        cmd = ["cargo", "+nightly", "build", "--release", "--offline", "-Zbuild-std", "--target", TARGET, "--target-dir", os.path.join(BUILD, "tsan")]
        exe = os.path.join(BUILD, "tsan", TARGET, "release", "vmon")
    elif kind == "valgrind":
        # plain build, run under valgrind
        return os.path.join(BUILD, "plain", "release", "vmon"), "plain build"
    elif kind in ("asan-bin", "tsan-bin"):
        # the real adlt binary (feature verif_hooks) built with a sanitizer; the plain harness drives it
        san = "address" if kind == "asan-bin" else "thread"
        env = dict(BASE_ENV, RUSTFLAGS=f"-Zsanitizer={san}" + (" -Cforce-frame-pointers=yes" if san == "address" else ""))
        td = os.path.join(BUILD, "adlt-" + kind)
        # line tables: sanitizer reports then name /repo/src/...:line (without them the frames only carry symbols)
        cmd = ["cargo", "+nightly", "build", "--release", "--offline", "--bin", "adlt", "--features", "verif_hooks", "--manifest-path", "/repo/Cargo.toml", "--target", TARGET, "--target-dir", td,
               "--config", "profile.release.debug=\"line-tables-only\""]
        if san == "thread":
            cmd.insert(5, "-Zbuild-std")
        rc, out = _run(cmd, env=env, cwd="/repo", timeout=3600)
        if rc != 0:
            return None, f"{kind} build failed: {out[-1500:]}"
        return os.path.join(td, TARGET, "release", "adlt"), f"{kind} build {time.time() - t:.0f}s"
    else:
        raise RuntimeError(kind)
    rc, out = _run(cmd, env=env, cwd=HARNESS, timeout=3600)
    if rc != 0:
        return None, f"{kind} build failed: {out[-1500:]}"
    return exe, f"{kind} build {time.time() - t:.0f}s"


IN_REPO = re.compile(r"(/repo/src/[A-Za-z0-9_/]+\.rs):(\d+)")
# inlined frames carry the path relative to the crate root ("src/utils/unzip.rs:725"); the harness' own files
# and the standard library never live under a src/<dir>/ that exists in /repo, main.rs/lib.rs are ambiguous and skipped
REL_REPO = re.compile(r"[( ](src/[A-Za-z0-9_/]+\.rs):(\d+)")


def first_repo_frame(text):
    m = IN_REPO.search(text)
    if m:
        return (m.group(1).replace("/repo/", ""), m.group(2))
    for m in REL_REPO.finditer(text):
        p = m.group(1)
        if p in ("src/main.rs", "src/lib.rs"):
            continue
        if os.path.exists(os.path.join("/repo", p)) and not os.path.exists(os.path.join(HARNESS, p)):
            return (p, m.group(2))
    return None


def classify(kind, text):
    """returns list of (class, detail) for sanitizer reports in the output"""
    res = []
    if kind == "miri":
        for blk in re.split(r"(?=error: Undefined Behavior|error: unsupported operation|error: Data race)", text):
            if blk.startswith("error: Undefined Behavior") or blk.startswith("error: Data race"):
                head = blk.split("\n", 1)[0][:160]
                fr = first_repo_frame(blk)
                res.append((fr, head, blk[:1500]))
    elif kind == "asan":
        for blk in re.split(r"(?===\d+==ERROR: AddressSanitizer)", text):
            if "ERROR: AddressSanitizer" in blk[:60]:
                head = blk.split("\n", 1)[0][:160]
                res.append((first_repo_frame(blk), head, blk[:1500]))
    elif kind == "tsan":
        for blk in re.split(r"(?=WARNING: ThreadSanitizer)", text):
            if blk.startswith("WARNING: ThreadSanitizer"):
                head = blk.split("\n", 1)[0][:160]
                res.append((first_repo_frame(blk), head, blk[:1500]))
    elif kind == "valgrind":
        for blk in re.split(r"(?===\d+== (?:Invalid|Conditional jump|Use of uninitialised|Syscall param))", text):
            if re.match(r"==\d+== (Invalid|Conditional jump|Use of uninitialised|Syscall param)", blk):
                head = re.sub(r"^==\d+==\s*", "", blk.split("\n", 1)[0])[:160]
                res.append((first_repo_frame(blk), head, blk[:1500]))
    return res


def run_phase(ph, pid, tier, seed, tmpdir, log):
    kind = ph["kind"]
    secs = ph.get("secs", 60)
    secs = max(1, int(secs * float(os.environ.get("VERIF_DEV_SECS_SCALE", "1") or 1)))
    if os.environ.get("VERIF_DEV_ONLY_PHASE") and os.environ["VERIF_DEV_ONLY_PHASE"] != ph["kind"]:
        return {"summary": {"build": ph["kind"], "executions": 0, "reports": 0, "reports_in_repo": 0, "notes": ["skipped (VERIF_DEV_ONLY_PHASE)"]}, "inconclusive": 0, "notes": []}
    shards = ph.get("shards", NCPU)
    args = list(ph.get("args", []))
    notes, violations, vclasses = [], [], {}
    summary = {"build": kind, "executions": 0, "reports": 0, "reports_in_repo": 0, "notes": []}
    t0 = time.time()
    procs = []
    env = dict(BASE_ENV)
    env.update(ph.get("env", {}))
    if kind == "miri":
        env["MIRIFLAGS"] = "-Zmiri-tree-borrows -Zmiri-disable-isolation -Zmiri-env-forward=VMON_TINY " + ph.get("miriflags", "")
        base = ["cargo", "+nightly", "miri", "run", "--offline", "--target-dir", os.path.join(BUILD, "miri"), "--"]
        # build once (sysroot + deps) so that the shards do not race on the target dir
        rc, out = _run(["cargo", "+nightly", "miri", "run", "--offline", "--target-dir", os.path.join(BUILD, "miri"), "--", "c01", "--cases", "1", "--secs", "1", "--out", os.path.join(tmpdir, "miri_warm.json")], env=env, cwd=HARNESS, timeout=3600)
        if rc != 0:
            summary["notes"].append("miri warm-up run failed: " + out[-800:])
            return {"summary": summary, "inconclusive": 1, "notes": [f"{pid} miri phase could not start (inconclusive)"]}
        cwd = HARNESS
    else:
        exe, note = build(kind, log)
        summary["notes"].append(note)
        if exe is None:
            return {"summary": summary, "inconclusive": 1, "notes": [f"{pid} {kind} phase: build failed (inconclusive)"]}
        if kind == "asan":
            env["ASAN_OPTIONS"] = "detect_leaks=0:halt_on_error=1:abort_on_error=1:symbolize=1"
            env["ASAN_SYMBOLIZER_PATH"] = shutil.which("llvm-symbolizer") or shutil.which("llvm-symbolizer-14") or ""
            base = [exe]
        elif kind == "tsan":
            env["TSAN_OPTIONS"] = "halt_on_error=1:exitcode=66:second_deadlock_stack=1"
            base = [exe]
        elif kind in ("asan-bin", "tsan-bin"):
            env["ASAN_OPTIONS"] = "detect_leaks=0:halt_on_error=1:abort_on_error=1:symbolize=1"
            env["ASAN_SYMBOLIZER_PATH"] = shutil.which("llvm-symbolizer") or shutil.which("llvm-symbolizer-14") or ""
            env["TSAN_OPTIONS"] = "halt_on_error=1:exitcode=66"
            base = [os.path.join(BUILD, "plain", "release", "vmon")]
            args = args + [f"adlt_bin={exe}"]
        else:
            base = ["valgrind", "--error-exitcode=99", "-q", "--num-callers=30", "--fullpath-after=", exe]
        cwd = tmpdir
    if ph.get("needs_bin"):
        args = args + [f"adlt_bin={os.path.join(BUILD, 'adlt-bin', 'release', 'adlt')}"]
    tmp_root = os.path.join(tmpdir, f"tmp_{kind}")
    shutil.rmtree(tmp_root, ignore_errors=True)
    os.makedirs(tmp_root, exist_ok=True)
    env["TMPDIR"] = tmp_root
    for i in range(shards):
        out = os.path.join(tmpdir, f"{kind}_shard_{i}.json")
        if os.path.exists(out):
            os.remove(out)
        cmd = base + [pid.lower(), "--seed", str(seed * 1000 + 7 + i), "--shard", str(i), "--of", str(shards), "--tier", tier, "--secs", str(secs), "--cases", str(ph.get("cases", 0)), "--out", out] + args
        lf = open(os.path.join(tmpdir, f"{kind}_shard_{i}.log"), "w")
        procs.append((i, out, subprocess.Popen(cmd, stdout=subprocess.DEVNULL, stderr=lf, env=env, cwd=cwd, preexec_fn=_limit_file_size), lf))
    deadline = time.time() + secs * ph.get("timeout_factor", 6) + 600
    inconclusive = 0
    for i, out, pr, lf in procs:
        try:
            rc = pr.wait(timeout=max(1, deadline - time.time()))
        except subprocess.TimeoutExpired:
            pr.kill(); pr.wait(); rc = None
        lf.close()
        text = open(os.path.join(tmpdir, f"{kind}_shard_{i}.log"), errors="replace").read()
        reports = classify(kind, text)
        summary["reports"] += len(reports)
        for fr, head, blk in reports:
            if fr:
                summary["reports_in_repo"] += 1
                what = re.sub(r"0x[0-9a-fA-F]+|\d+", "#", head.split(':', 2)[-1].strip())[:60]
                cls = f"{kind}:{what}@{fr[0]}"
                vclasses[cls] = vclasses.get(cls, 0) + 1
                if len(violations) < 6:
                    violations.append({"class": cls, "detail": f"{kind} report with a frame in {fr[0]}:{fr[1]}: {head}", "replay": {"kind": kind, "shard": i, "seed": seed, "report": blk}})
            else:
                n = f"{kind} report without a frame in /repo/src (dependency code, logged as note): {head}"
                if n not in notes and len(notes) < 10:
                    notes.append(n)
        if os.path.exists(out):
            try:
                r = json.load(open(out))
                summary["executions"] += r.get("counters", {}).get("evaluations", 0)
                # the monitors' own violations under this build count as well
                for v in r.get("violations", []):
                    v = dict(v); v["detail"] = f"[{kind} build] " + v["detail"]
                    violations.append(v)
                for k, n in r.get("violation_classes", {}).items():
                    vclasses[k] = vclasses.get(k, 0) + n
                continue
            except Exception:
                pass
        if not reports:
            inconclusive += 1
            notes.append(f"{kind} shard {i}: rc={rc}, no report and no result (inconclusive): {text[-300:]!r}")
    shutil.rmtree(tmp_root, ignore_errors=True)
    summary["wall_s"] = round(time.time() - t0, 1)
    summary["notes"].extend(notes[:6])
    if summary["executions"] == 0 and not violations:
        inconclusive += 1
    return {"summary": summary, "violations": violations, "violation_classes": vclasses, "inconclusive": inconclusive, "notes": notes}
