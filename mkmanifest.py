#!/usr/bin/env python3
"""writes MANIFEST.json from props.py (single source of truth for what is claimed)"""
import json, os, sys
sys.path.insert(0, os.path.dirname(os.path.abspath(__file__)))
from props import PROPS
from manifest_texts import TEXTS, NOT_APPLICABLE, HOOK_COMMITS
checks = []
for pid in sorted(PROPS):
    t = TEXTS[pid]
    checks.append({
        "property_id": pid,
        "quick_cmd": f"./check {pid} --tier quick",
        "thorough_cmd": f"./check {pid} --tier thorough",
        "evidence_file": f"/verif/evidence/{pid}.json",
        "replay_cmd_template": f"./check {pid} --replay {{path}}",
        "engine": "vmon",
        "level_claimed": {"category": PROPS[pid].get("level", "exploration"), "text": t["level_text"], "design_ref": f"DESIGN.md section 7 ({pid})"},
        "level_note": t["level_note"],
        "technique": t["technique"],
    })
import json as _j
all_ids = [_j.loads(l)["id"] for l in open(os.path.join(os.path.dirname(os.path.abspath(__file__)), "properties.jsonl"))]
na = list(NOT_APPLICABLE)
for i in all_ids:
    if i not in PROPS and not any(n["property_id"] == i for n in na):
        na.append({"property_id": i, "reason": "not claimed yet: the monitor for this property is not built/registered at this commit (see DESIGN.md section 7 for its design)"})
NOT_APPLICABLE = na
m = {
    "version": 1,
    "setup_cmd": "./setup.sh",
    "hooks": {
        "guard": "cargo feature verif_hooks",
        "enable": "harness depends on adlt = { path = \"/repo\", features = [\"verif_hooks\"] }; binaries: cargo build --bin adlt --features verif_hooks",
        "baseline_off_cmd": "/verif/baseline_off.sh",
        "source_commits": HOOK_COMMITS,
        "add_only": True,
    },
    "engines": [{"name": "vmon", "path": "/verif/harness", "serves_properties": sorted(PROPS), "kind_free_text": "runtime monitors (reference-model oracles over observed events of the real code, invariant probes at hooks, isolated workers) driven by generated hostile workloads; sanitizer/Miri shards in the thorough tier"}],
    "checks": checks,
    "not_applicable": NOT_APPLICABLE,
    "notes": "Runtime monitoring only: every verdict is 'held on the executions observed'. exit 2 of a check means 'decided nothing' (build failure or coverage floor missed).",
}
json.dump(m, open(os.path.join(os.path.dirname(os.path.abspath(__file__)), "MANIFEST.json"), "w"), indent=1)
print("wrote MANIFEST.json with", len(checks), "checks")
