#!/bin/bash
# runs the repository's own test suite with the verif_hooks feature OFF (default features)
cd /repo || exit 2
export CARGO_NET_OFFLINE=true
if [ -f /w/lib/nextest.toml ] && cargo nextest --version >/dev/null 2>&1; then
  exec cargo nextest run --workspace --no-fail-fast --tool-config-file pb:/w/lib/nextest.toml --profile pb --test-threads 8 --offline
else
  exec cargo test --workspace --no-fail-fast --offline -- --test-threads 8
fi
