#!/bin/bash
# setup_cmd: builds the monitor harness (and the adlt binary with hooks) once, offline, from files on disk
set -e
cd /verif
export CARGO_NET_OFFLINE=true
cp /repo/Cargo.lock harness/Cargo.lock
mkdir -p .build evidence replays
(cd harness && cargo build --release --offline --target-dir /verif/.build/plain 2>&1 | tail -3)
cargo build --release --offline --bin adlt --features verif_hooks --manifest-path /repo/Cargo.toml --target-dir /verif/.build/adlt-bin \
  --config profile.release.debug-assertions=true --config profile.release.overflow-checks=true --config profile.release.opt-level=2 2>&1 | tail -3
echo setup done
