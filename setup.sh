#!/bin/bash
# setup_cmd: builds the monitor harness (and the adlt binary with hooks) once, offline, from files on disk
set -e
cd /verif
export CARGO_NET_OFFLINE=true
cp /repo/Cargo.lock harness/Cargo.lock
mkdir -p .build evidence replays
(cd harness && cargo build --release --offline --target-dir /verif/.build/plain 2>&1 | tail -3)
cargo build --release --offline --bin adlt --features verif_hooks --manifest-path /repo/Cargo.toml --target-dir /verif/.build/adlt-bin \
  --config profile.release.debug-assertions=true --config profile.release.overflow-checks=true --config profile.release.opt-level=2 2>&1 | tail -3
# warm up the Miri build (used by the small interpreter shards of the quick tier of C06 and C18); failure here is not fatal:
# the phase then reports itself as inconclusive
(cd harness && MIRIFLAGS="-Zmiri-tree-borrows -Zmiri-disable-isolation" cargo +nightly miri run --offline --target-dir /verif/.build/miri -- c01 --cases 1 --secs 1 --out /verif/.build/miri_warm.json tiny 2>&1 | tail -2) || true
echo setup done
