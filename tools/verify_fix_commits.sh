#!/bin/bash
# run the repository's own test suite (guard off) at every "fix:" commit of /repo in a scratch worktree
# usage: verify_fix_commits.sh [outfile] [since-commit (exclusive; appends to outfile)]
out=${1:-/verif/fix_commit_tests.log}
since=$2
if [ -z "$since" ]; then : > $out; range=HEAD; else sed -i '/^done$/d' $out; range=$since..HEAD; fi
export CARGO_NET_OFFLINE=true
wt=/tmp/wt_fixverify
for c in $(git -C /repo log --reverse --format=%h --grep='^fix:' $range); do
  subj=$(git -C /repo log -1 --format=%s $c)
  rm -rf $wt; git -C /repo worktree prune
  git -C /repo worktree add -f $wt $c >/dev/null 2>&1 || { echo "$c worktree failed" >> $out; continue; }
  cp /repo/Cargo.lock $wt/
  # share one target dir between the commits to save build time
  res=$(cd $wt && CARGO_TARGET_DIR=/tmp/wt_fixverify_target timeout 1500 cargo nextest run --workspace --no-fail-fast --tool-config-file pb:/w/lib/nextest.toml --profile pb --test-threads 8 --offline -E 'not test(bin_remote_invalidport)' 2>&1 | grep -E "Summary|FAIL|TIMEOUT" | tr '\n' ' ')
  echo "$c | $subj | $res" >> $out
  git -C /repo worktree remove --force $wt
done
rm -rf /tmp/wt_fixverify_target $wt
echo done >> $out
