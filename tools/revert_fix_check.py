#!/usr/bin/env python3
"""self-validation: for every `fixed` entry of known_findings.json revert that fix: commit in a scratch worktree
(never in /repo) and run the property's quick check from a relocated copy of /verif (tools/devseed.sh):
the check has to report the violation again.  Writes seeded/reverted_fixes.json.  Not evidence, a development aid."""
import json, os, subprocess, sys, re
V = '/verif'
k = json.load(open(f'{V}/known_findings.json'))['findings']
dev = '/tmp/seed/dev'
head = subprocess.check_output(['git', '-C', '/repo', 'rev-parse', '--short', 'HEAD']).decode().strip()
os.makedirs(f'{dev}/out', exist_ok=True)
if not os.path.isdir(f'{dev}/wt'):
    subprocess.run(['git', '-C', '/repo', 'worktree', 'add', '-f', f'{dev}/wt', 'HEAD'], check=True, stdout=subprocess.DEVNULL, stderr=subprocess.DEVNULL)
subprocess.run(['git', '-C', f'{dev}/wt', 'checkout', '-q', '--', '.'])
subprocess.run(['git', '-C', f'{dev}/wt', 'checkout', '-q', '--detach', head], check=True)
subprocess.run(['cp', '/repo/Cargo.lock', f'{dev}/wt/'])
only = set(sys.argv[1:])
seen = {}
out_path = f'{V}/seeded/reverted_fixes.json'
results = json.load(open(out_path)) if os.path.exists(out_path) else {}
for e in k:
    if e['status'] != 'fixed':
        continue
    key = (e['property'], e['commit'])
    if key in seen or (only and e['commit'] not in only and e['property'] not in only):
        continue
    seen[key] = 1
    commits = e['commit'].split('+')
    # revert all commits of the entry (newest first)
    patch = b''
    ok = True
    subprocess.run(['git', '-C', f'{dev}/wt', 'checkout', '-q', '--', '.'])
    for c in reversed(commits):
        d = subprocess.check_output(['git', '-C', '/repo', 'diff', c, c + '^', '--', 'src'])
        r = subprocess.run(['git', '-C', f'{dev}/wt', 'apply', '-3'], input=d, stdout=subprocess.PIPE, stderr=subprocess.STDOUT)
        if r.returncode != 0:
            ok = False
            break
    if ok:
        patch = subprocess.check_output(['git', '-C', f'{dev}/wt', 'diff', 'HEAD', '--', 'src'])
    subprocess.run(['git', '-C', f'{dev}/wt', 'reset', '-q', '--hard', head])
    name = f"{e['property']}:{e['commit']}"
    if not ok or not patch:
        results[name] = {'result': 'revert does not apply on HEAD (later commits touch the same lines)'}
        print(name, results[name]['result'], flush=True)
        continue
    open(f'{dev}/out/patch.diff', 'wb').write(patch)
    r = subprocess.run([f'{V}/tools/devseed.sh', dev, e['property']], stdout=subprocess.PIPE, stderr=subprocess.STDOUT, text=True, env=dict(os.environ, LINES_OUT='4'))
    m = re.search(r'== dev (C\d+) rc=(\d+)', r.stdout)
    rc = int(m.group(2)) if m else -1
    summary = [l for l in r.stdout.splitlines() if 'quick seed=' in l or 'decided nothing' in l]
    results[name] = {'result': 'violation reported again' if rc == 1 else f'NOT reported (rc={rc})', 'class_of_the_finding': e['class'], 'summary': summary[-1][:200] if summary else r.stdout[-300:]}
    print(name, results[name]['result'], summary[-1][:160] if summary else '', flush=True)
    json.dump(results, open(out_path, 'w'), indent=1)
json.dump(results, open(out_path, 'w'), indent=1)
