#!/bin/bash
# run every check of a tier at several seeds on /repo as it is; prints one line per (check, seed)
tier=${1:-quick}; shift
seeds=${@:-2 3 7 42}
cd "$(dirname "$0")/.."
[ -x ./setup.sh ] && [ ! -x .build/plain/release/vmon ] && ./setup.sh > /dev/null 2>&1
ids=$(python3 -c "import json;print(' '.join(c['property_id'] for c in json.load(open('MANIFEST.json'))['checks']))")
for s in $seeds; do
  for c in $ids; do
    t0=$(date +%s)
    out=$(VERIF_SEED=$s ./check $c --tier $tier 2>&1)
    rc=$?
    echo "seed=$s $c rc=$rc $(( $(date +%s) - t0 ))s viol=$(echo "$out" | grep -c '^VIOLATION') | $(echo "$out" | tail -1 | cut -c1-150)"
    if [ $rc -ne 0 ]; then echo "$out" | grep -E "violation class|VIOLATION|floor" | head -8; fi
  done
done
