#!/bin/bash
# run all registered checks of a tier sequentially on /repo as it is; summary at the end
tier=${1:-quick}
cd /verif
ids=$(python3 -c "import json;print(' '.join(c['property_id'] for c in json.load(open('MANIFEST.json'))['checks']))")
: > /verif/.build/run_all_$tier.log
for c in $ids; do
  t0=$(date +%s)
  ./check $c --tier $tier > /verif/.build/run_all_${tier}_$c.log 2>&1
  rc=$?
  t1=$(date +%s)
  echo "$c rc=$rc $((t1-t0))s $(grep -c '^VIOLATION' /verif/.build/run_all_${tier}_$c.log) violations $(grep -c '^KNOWN-FINDING' /verif/.build/run_all_${tier}_$c.log) known | $(tail -1 /verif/.build/run_all_${tier}_$c.log | cut -c1-160)" | tee -a /verif/.build/run_all_$tier.log
done
