#!/bin/bash
# official apply/run/revert test of a list of seeds against the registered quick checks (needs /repo to be otherwise unused)
# usage: official_seeds.sh "<seed-id> <patch> <Cxx> [Cyy..]" ...
out=/verif/.build/official_seeds.log
for spec in "$@"; do
  set -- $spec
  id=$1; patch=$2; shift 2
  for c in "$@"; do
    r=$(LINES_OUT=1 /verif/tools/seedtest.sh $patch $c 2>&1 | tr '\n' ' ' | cut -c1-260)
    echo "$id $c | $r" | tee -a $out
  done
done
