#!/bin/bash
# confirm a seeded change in the sub-agent's scratch worktree:
#  patch applies + compiles + existing tests pass; demo fails with the patch and passes without
# usage: confirm_seed.sh <id> [dir]   (dir default /tmp/seed/<id>)
id=$1; d=${2:-/tmp/seed/$id}; wt=$d/wt; out=$d/out
export CARGO_NET_OFFLINE=true
cd $wt || exit 2
git checkout -q -- . ; git clean -fdq tests src 2>/dev/null
echo "== apply patch"; git apply $out/patch.diff || { echo PATCH_DOES_NOT_APPLY; exit 1; }
echo "== test suite with patch"
(cargo test --offline --no-fail-fast -- --test-threads 8 --skip bin_remote_invalidport > $d/confirm_tests.log 2>&1)
grep -a -E "^test result|FAILED|failed" $d/confirm_tests.log | grep -v "^test .* ok" | head -20
echo "== demo with patch (must fail)"
git apply $out/demo.diff || { echo DEMO_DOES_NOT_APPLY; }
demo_cmd=${DEMO_CMD:-"cargo test --offline --test seed_demo"}
$demo_cmd > $d/confirm_demo_with.log 2>&1; echo "demo with patch rc=$?"
grep -a -E "^test result" $d/confirm_demo_with.log | tail -3
echo "== demo without patch (must pass)"
git apply -R $out/patch.diff
$demo_cmd > $d/confirm_demo_without.log 2>&1; echo "demo without patch rc=$?"
grep -a -E "^test result" $d/confirm_demo_without.log | tail -3
git checkout -q -- . ; git clean -fdq tests src 2>/dev/null
git status --short | head
