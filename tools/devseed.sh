#!/bin/bash
# development aid: pre-screen a seeded change WITHOUT touching /repo (e.g. while a long run uses /repo):
# a relocated copy of /verif under /tmp/vdev is pointed at the seed's scratch worktree, the patch is applied there,
# the quick checks run from the copy, the patch is reverted. Results are NOT evidence; the official test is
# tools/seedtest.sh (apply to /repo, run the registered checks, revert).
# env VDEV=<dir> (default /tmp/vdev) selects the relocated copy (one per concurrent invocation)
# usage: devseed.sh <seed dir with wt/ and out/patch.diff> <Cxx> [Cyy...]     env HARNESS_SRC=<dir> to use another harness source
d=$1; shift
wt=$d/wt
[ -d "$wt" ] || { echo "no worktree $wt"; exit 2; }
VDEV=${VDEV:-/tmp/vdev}
mkdir -p $VDEV
rsync -a --delete --exclude .git --exclude .build --exclude evidence --exclude replays --exclude 'harness/target' /verif/ $VDEV/verif/
if [ -n "$HARNESS_SRC" ]; then rsync -a --exclude target "$HARNESS_SRC"/ $VDEV/verif/harness/; fi
cd $VDEV/verif || exit 2
sed -i "s#path = \"/repo\"#path = \"$wt\"#" harness/Cargo.toml
sed -i "s#\"/repo/Cargo.toml\"#\"$wt/Cargo.toml\"#g; s#cwd=\"/repo\"#cwd=\"$wt\"#g" check phases.py
grep -q "$wt" harness/Cargo.toml || { echo "relocation failed"; exit 2; }
( cd $wt && git checkout -q -- . && git apply $d/out/patch.diff ) || { echo "patch does not apply"; exit 2; }
trap "cd $wt && git checkout -q -- ." EXIT
for c in "$@"; do
  ./check $c --tier ${TIER:-quick} 2>&1 | tail -${LINES_OUT:-3} | cut -c1-300
  echo "== dev $c rc=${PIPESTATUS[0]}"
done
