#!/usr/bin/env python3
"""store a confirmed seeded change: tools/store_seed.py <id> <srcdir> '<change>' '<needs>' '<detected json>' [name]"""
import json, os, shutil, sys, re
sid, src, change, needs, detected = sys.argv[1:6]
name = sys.argv[6] if len(sys.argv) > 6 else sid
d = f'/verif/seeded/{name}'
os.makedirs(d, exist_ok=True)
out = os.path.join(src, 'out')
shutil.copy(os.path.join(out, 'patch.diff'), os.path.join(d, 'patch.diff'))
if os.path.exists(os.path.join(out, 'patch_rebased.diff')):
    shutil.copy(os.path.join(out, 'patch_rebased.diff'), os.path.join(d, 'patch_rebased.diff'))
shutil.copy(os.path.join(out, 'demo.diff'), os.path.join(d, 'demo.diff'))
if os.path.exists(os.path.join(out, 'README.md')):
    shutil.copy(os.path.join(out, 'README.md'), os.path.join(d, 'agent_README.md'))
def tail(p, pat):
    try:
        return [l.strip() for l in open(p, errors='replace') if re.search(pat, l)][-6:]
    except OSError:
        return []
meta = {
    "property": sid,
    "origin": "independent sub-agent given only the property text and a scratch worktree of /repo",
    "change": change,
    "needs_to_manifest": needs,
    "confirmed": {
        "where": f"{src}/wt (scratch worktree, removed afterwards)",
        "how": "tools/confirm_seed.sh: git apply patch.diff; cargo test --offline (all existing tests); git apply demo.diff; demo must fail; git apply -R patch.diff; demo must pass",
        "existing_tests_with_patch": tail(os.path.join(src, 'confirm_tests.log'), r'^test result'),
        "demo_with_patch": tail(os.path.join(src, 'confirm_demo_with.log'), r'^test result'),
        "demo_without_patch": tail(os.path.join(src, 'confirm_demo_without.log'), r'^test result'),
    },
    "apply_with": "patch_rebased.diff (3-way rebased onto the current /repo HEAD)" if os.path.exists(os.path.join(d, 'patch_rebased.diff')) else "patch.diff",
    "detected_by": json.loads(detected),
}
json.dump(meta, open(os.path.join(d, 'meta.json'), 'w'), indent=1)
print('stored', d)
