#!/bin/bash
# apply a seeded change to /repo, run the given checks (quick), and revert
# usage: seedtest.sh <patch.diff> <Cxx> [Cyy...]
patch=$1; shift
cd /repo || exit 2
if [ -n "$(git status --porcelain --untracked-files=no)" ]; then echo "/repo not clean"; exit 2; fi
git apply "$patch" || { echo "patch does not apply"; exit 2; }
trap 'git -C /repo checkout -- .' EXIT
cd /verif
for c in "$@"; do
  ./check $c --tier ${TIER:-quick} 2>&1 | tail -${LINES_OUT:-6}
  echo "== $c rc=${PIPESTATUS[0]}"
done
