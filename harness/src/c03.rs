//! C03 no input content can crash ingestion and analysis
//! supervisor + isolated worker processes; panic capture per stage; allocation monitor; termination watchdog
use crate::c18::{encode, Val};
use crate::gen::*;
use crate::lc::new_table;
use crate::refdlt::*;
use crate::report::*;
use crate::rng::*;
use adlt::dlt::DltMessage;
use adlt::filter::Filter;
use adlt::lifecycle::{get_sorted_lifecycles_as_vec, parse_lifecycles_buffered_from_stream};
use adlt::plugins::anonymize::AnonymizePlugin;
use adlt::plugins::factory::get_plugin;
use adlt::plugins::plugin::Plugin;
use adlt::plugins::plugins_process_msgs;
use adlt::utils::eac_stats::EacStats;
use adlt::utils::{buffer_sort_messages, get_dlt_message_iterator, get_new_namespace, LowMarkBufReader};
use serde_json::json;
use std::cell::RefCell;
use std::io::{BufRead, Write};
use std::sync::atomic::{AtomicUsize, Ordering};

// ---------------------------------------------------------------- allocation monitor
pub static MAX_ALLOC: AtomicUsize = AtomicUsize::new(0);
pub struct CountingAlloc;
unsafe impl std::alloc::GlobalAlloc for CountingAlloc {
    unsafe fn alloc(&self, l: std::alloc::Layout) -> *mut u8 {
        let s = l.size();
        if s > MAX_ALLOC.load(Ordering::Relaxed) {
            MAX_ALLOC.fetch_max(s, Ordering::Relaxed);
        }
        std::alloc::System.alloc(l)
    }
    unsafe fn dealloc(&self, p: *mut u8, l: std::alloc::Layout) {
        std::alloc::System.dealloc(p, l)
    }
    unsafe fn alloc_zeroed(&self, l: std::alloc::Layout) -> *mut u8 {
        let s = l.size();
        if s > MAX_ALLOC.load(Ordering::Relaxed) {
            MAX_ALLOC.fetch_max(s, Ordering::Relaxed);
        }
        std::alloc::System.alloc_zeroed(l)
    }
    unsafe fn realloc(&self, p: *mut u8, l: std::alloc::Layout, n: usize) -> *mut u8 {
        if n > MAX_ALLOC.load(Ordering::Relaxed) {
            MAX_ALLOC.fetch_max(n, Ordering::Relaxed);
        }
        std::alloc::System.realloc(p, l, n)
    }
}
const ALLOC_SLACK: usize = 64 << 20;

// ---------------------------------------------------------------- inputs

#[derive(Clone, Debug)]
pub struct Input {
    pub ext: &'static str,
    pub bytes: Vec<u8>,
    pub origin: String,
    pub mutation: String,
}

pub struct Corpus {
    pub dlt: Vec<(String, Vec<u8>)>,
    pub asc: Vec<(String, Vec<u8>)>,
    pub txt: Vec<(String, Vec<u8>)>,
    pub log: Vec<(String, Vec<u8>)>,
}

pub fn load_corpus() -> Corpus {
    let mut c = Corpus { dlt: vec![], asc: vec![], txt: vec![], log: vec![] };
    if let Ok(rd) = std::fs::read_dir("/repo/tests") {
        let mut names: Vec<_> = rd.flatten().map(|e| e.path()).collect();
        names.sort();
        for p in names {
            let ext = p.extension().and_then(|e| e.to_str()).unwrap_or("").to_string();
            let name = p.file_name().unwrap().to_string_lossy().to_string();
            if let Ok(b) = std::fs::read(&p) {
                match ext.as_str() {
                    "dlt" => c.dlt.push((name, b)),
                    "asc" => c.asc.push((name, b)),
                    "txt" => c.txt.push((name, b)),
                    "log" => c.log.push((name, b)),
                    _ => {}
                }
            }
        }
    }
    c
}

/// a rich valid DLT trace: returns bytes, message offsets and for each message the offsets of interesting fields
pub struct RichTrace {
    pub bytes: Vec<u8>,
    pub offsets: Vec<usize>,
    /// (absolute offset, width, kind)
    pub fields: Vec<(usize, usize, &'static str)>,
}

fn ctrl_payload(rng: &mut Rng, be: bool, lens: &mut Vec<usize>) -> Vec<u8> {
    let sid: u32 = *rng.pick(&[3u32, 19, 0xf01, 0xf02, 0xf03, 0xf04, 1, 0x14, 0xffff_ffff]);
    let mut p = if be { sid.to_be_bytes().to_vec() } else { sid.to_le_bytes().to_vec() };
    let mut put16 = |p: &mut Vec<u8>, v: u16| {
        lens.push(p.len());
        p.extend_from_slice(&if be { v.to_be_bytes() } else { v.to_le_bytes() })
    };
    match sid {
        3 => {
            let status = *rng.pick(&[0u8, 3, 4, 5, 6, 7, 7, 8, 2]);
            p.push(status);
            let napp = rng.below(3) as u16;
            put16(&mut p, napp);
            for _ in 0..napp {
                p.extend_from_slice(b"APP1");
                let nctx = rng.below(3) as u16;
                put16(&mut p, nctx);
                for _ in 0..nctx {
                    p.extend_from_slice(b"CTX1");
                    if matches!(status, 4 | 6 | 7) {
                        p.push(4);
                    }
                    if matches!(status, 5 | 6 | 7) {
                        p.push(1);
                    }
                    if status == 7 {
                        let d = b"context description";
                        put16(&mut p, d.len() as u16);
                        p.extend_from_slice(d);
                    }
                }
                if status == 7 {
                    let d = b"app description";
                    put16(&mut p, d.len() as u16);
                    p.extend_from_slice(d);
                }
            }
            if rng.chance(1, 2) {
                p.extend_from_slice(b"remo");
            }
        }
        19 => {
            p.push(0);
            let v = b"SW version 1.2.3";
            p.extend_from_slice(&if be { (v.len() as u32).to_be_bytes() } else { (v.len() as u32).to_le_bytes() });
            p.extend_from_slice(v);
        }
        0xf01 => {
            p.push(0);
            p.extend_from_slice(b"APP1CTX1remo");
        }
        0xf02 => {
            p.push(0);
            p.push(2);
            p.extend_from_slice(b"remo");
        }
        0xf03 => {
            p.push(0);
            p.extend_from_slice(&3600i32.to_le_bytes());
            p.push(1);
        }
        _ => {
            p.push(rng.next_u8());
            let n = rng.usize_below(12);
            p.extend_from_slice(&rng.bytes(n));
        }
    }
    p
}

pub fn gen_rich_trace(rng: &mut Rng, n_msgs: usize) -> RichTrace {
    let mut bytes = Vec::new();
    let mut offsets = Vec::new();
    let mut fields = Vec::new();
    let mut secs = 1_600_000_000u32 + rng.below(1000) as u32;
    let mut ts = rng.below(100000) as u32;
    let mut ft_serial = 1u32;
    let mut pending: Vec<RefMsg> = Vec::new();
    let mut ctrl_lens: Vec<usize> = Vec::new();
    let mut pending_ctrl_lens: Option<Vec<usize>> = None;
    let o = MsgOpts { micros_valid: true, huge_per_mille: 0, version_one: true };
    let mut k = 0;
    while k < n_msgs {
        let be = rng.chance(1, 4);
        let shape_base = (rng.below(32) as u8 & !(UEH | MSBF)) | UEH | if be { MSBF } else { 0 };
        let mut mk = |rng: &mut Rng, msin: u8, noar: u8, apid: &[u8; 4], ctid: &[u8; 4], payload: Vec<u8>| -> RefMsg {
            let mut m = gen_msg_shape(rng, false, shape_base | WTMS, 0, &o);
            m.secs = secs;
            m.micros = rng.below(1_000_000) as u32;
            m.storage_ecu = *rng.pick(&[*b"ECU1", *b"Ecu1", *b"CAN1"]);
            m.std_ecu = m.std_ecu.map(|_| m.storage_ecu);
            m.timestamp = Some(ts);
            m.ext = Some(RefExt { msin, noar, apid: *apid, ctid: *ctid });
            m.payload = payload;
            m
        };
        match rng.below(15) {
            12 | 13 => {
                // a segmented SOME/IP transfer (NWST, NWCH*, NWEN) whose numeric parameters come from boundary sets
                let seg_id = rng.below(4) as u32;
                let tag = |s: &[u8; 4]| {
                    let mut v = s.to_vec();
                    v.push(0);
                    Val::Ascii(v)
                };
                let nr_chunks: u16 = *rng.pick(&[0u16, 1, 1, 2, 2, 3, 4, 0xfffe, 0xffff]);
                let chunk_size: u16 = *rng.pick(&[0u16, 0, 1, 2, 8, 16, 16, 17, 0xffff]);
                let hdr = {
                    let n = *rng.pick(&[9usize, 9, 10, 12, 8, 0]);
                    rng.bytes(n)
                };
                let mtin = *rng.pick(&[1u8, 2]);
                let msin = 1 | (2 << 1) | (mtin << 4);
                let two = |rng: &mut Rng, v: u16| if rng.chance(1, 12) { Val::Raw(rng.bytes(3)) } else { Val::Raw(v.to_le_bytes().to_vec()) };
                let idv = |rng: &mut Rng| if rng.chance(1, 12) { Val::Raw(rng.bytes(3)) } else { Val::Raw(seg_id.to_le_bytes().to_vec()) };
                if rng.chance(7, 8) {
                    let a_id = idv(rng);
                    let a_nr = two(rng, nr_chunks);
                    let a_cs = two(rng, chunk_size);
                    let (p, _) = encode(&[tag(b"NWST"), a_id, Val::Raw(hdr), Val::U32(0), a_nr, a_cs], be);
                    pending.push(mk(rng, msin, 6, b"NWT\0", b"TC\0\0", p));
                }
                let n_ch = rng.usize_below(4).min(nr_chunks as usize + 1);
                // a SOME/IP header + payload spread over the chunks
                let mut body = vec![0u8; 16];
                body[0..4].copy_from_slice(&[0x00, 0x7b, 0x80, 0x01]);
                body.extend_from_slice(&rng.bytes(24));
                for c in 0..n_ch {
                    let chunk_nr: u16 = if rng.chance(5, 6) { c as u16 } else { *rng.pick(&[0u16, 1, 0xffff, 0xfffe]) };
                    let len = if rng.chance(3, 4) { chunk_size as usize % 64 } else { rng.usize_below(20) };
                    let data: Vec<u8> = body.iter().cycle().skip(c * len).take(len).cloned().collect();
                    let a_id = idv(rng);
                    let a_nr = two(rng, chunk_nr);
                    let (p, _) = encode(&[tag(b"NWCH"), a_id, a_nr, Val::Raw(data)], be);
                    pending.push(mk(rng, msin, 4, b"NWT\0", b"TC\0\0", p));
                }
                if rng.chance(3, 4) {
                    let a_id = idv(rng);
                    let (p, _) = encode(&[tag(b"NWEN"), a_id], be);
                    pending.push(mk(rng, msin, 2, b"NWT\0", b"TC\0\0", p));
                }
            }
            14 => {
                // a file transfer whose numeric parameters come from boundary sets (sizes, package counts, package numbers)
                let size: u32 = *rng.pick(&[0u32, 1, 7, 16, 40, 0xffff, u32::MAX]);
                let bs: u32 = *rng.pick(&[0u32, 1, 4, 16, 1024, u32::MAX]);
                let npk: u32 = if rng.chance(1, 2) && bs > 0 { ((size as u64 + bs as u64 - 1) / bs as u64) as u32 } else { *rng.pick(&[0u32, 1, 2, 3, u32::MAX]) };
                let tag = |s: &[u8; 4]| {
                    let mut v = s.to_vec();
                    v.push(0);
                    Val::Ascii(v)
                };
                let (p, _) = encode(&[tag(b"FLST"), Val::U32(ft_serial), Val::Str("bounds.bin".into()), Val::U32(size), Val::Str("date".into()), Val::U32(npk), Val::U32(bs), tag(b"FLST")], be);
                pending.push(mk(rng, 0x41, 8, b"SYS\0", b"FILE", p));
                let n_da = rng.usize_below(4);
                for i in 0..n_da {
                    let nr: i32 = if rng.chance(2, 3) { i as i32 + 1 } else { *rng.pick(&[0i32, -1, 1, 2, i32::MAX, i32::MIN]) };
                    let dl = if rng.chance(2, 3) { (bs as usize).min(48) } else { rng.usize_below(20) };
                    let data = rng.bytes(dl);
                    let (p, _) = encode(&[tag(b"FLDA"), Val::U32(ft_serial), Val::I32(nr), Val::Raw(data), tag(b"FLDA")], be);
                    pending.push(mk(rng, 0x41, 5, b"SYS\0", b"FILE", p));
                }
                if rng.chance(3, 4) {
                    let (p, _) = encode(&[tag(b"FLFI"), Val::U32(ft_serial), tag(b"FLFI")], be);
                    pending.push(mk(rng, 0x41, 3, b"SYS\0", b"FILE", p));
                }
                ft_serial += 1;
            }
            0 | 1 | 2 => {
                // verbose log with typed args
                let n = rng.usize_below(5);
                let vals: Vec<Val> = (0..n).map(|_| crate::c18::gen_val(rng, false, false)).collect();
                let (p, _) = encode(&vals, be);
                pending.push(mk(rng, 0x41, n as u8, b"APP1", b"CTX1", p));
            }
            3 => {
                // non verbose: frames of the repository FIBEX files or of the harness' rich FIBEX (ECU EcuR)
                let rich = rng.chance(1, 2);
                let (id, n) = if rich {
                    let (off, bl) = *rng.pick(&crate::c19::RICH_FRAMES);
                    (900000000 + off, match rng.below(5) { 0 => bl.saturating_sub(1), 1 => bl + 1, _ => bl })
                } else {
                    (*rng.pick(&[805312382u32, 805834673, 800000000, 42]), rng.usize_below(24))
                };
                let mut p = if be { id.to_be_bytes().to_vec() } else { id.to_le_bytes().to_vec() };
                p.extend_from_slice(&rng.bytes(n));
                let mut m = mk(rng, 0x40, 0, b"APP2", b"CTX2", p);
                if rich {
                    m.storage_ecu = *b"EcuR";
                    m.std_ecu = m.std_ecu.map(|_| m.storage_ecu);
                    if rng.chance(1, 2) {
                        m.ext = None; // the plugin adds the extended header from the FIBEX
                    }
                }
                pending.push(m);
            }
            4 => {
                let resp = rng.chance(2, 3);
                let verbose_bit = rng.chance(1, 6) as u8;
                let p = if verbose_bit == 1 && rng.chance(2, 3) {
                    // a verbose control message: typed arguments (first one may be shorter than a service id)
                    let n = 1 + rng.usize_below(3);
                    let vals: Vec<Val> = (0..n).map(|_| crate::c18::gen_val(rng, false, false)).collect();
                    encode(&vals, be).0
                } else {
                    ctrl_lens.clear();
                    ctrl_payload(rng, be, &mut ctrl_lens)
                };
                pending_ctrl_lens = Some(ctrl_lens.clone());
                // 1/4 under the CAN plugin's log-info ids (its GET_LOG_INFO branch maps channel names)
                let (ap, ct): (&[u8; 4], &[u8; 4]) = if rng.chance(1, 4) { (b"CAN\0", b"TC\0\0") } else { (b"DA1\0", b"DC1\0") };
                pending.push(mk(rng, verbose_bit | (3 << 1) | ((if resp { 2 } else { 1 }) << 4), 1, ap, ct, p));
            }
            5 => {
                // a small file transfer
                let size = 1 + rng.usize_below(40);
                let bs = 1 + rng.usize_below(16);
                let data = rng.bytes(size);
                let tag = |s: &[u8; 4]| {
                    let mut v = s.to_vec();
                    v.push(0);
                    Val::Ascii(v)
                };
                let npk = (size + bs - 1) / bs;
                let (p, _) = encode(&[tag(b"FLST"), Val::U32(ft_serial), Val::Str("file.bin".into()), Val::U32(size as u32), Val::Str("date".into()), Val::U32(npk as u32), Val::U32(bs as u32), tag(b"FLST")], be);
                pending.push(mk(rng, 0x41, 8, b"SYS\0", b"FILE", p));
                for (i, c) in data.chunks(bs).enumerate() {
                    let (p, _) = encode(&[tag(b"FLDA"), Val::U32(ft_serial), Val::I32(i as i32 + 1), Val::Raw(c.to_vec()), tag(b"FLDA")], be);
                    pending.push(mk(rng, 0x41, 5, b"SYS\0", b"FILE", p));
                }
                let (p, _) = encode(&[tag(b"FLFI"), Val::U32(ft_serial), tag(b"FLFI")], be);
                pending.push(mk(rng, 0x41, 3, b"SYS\0", b"FILE", p));
                ft_serial += 1;
            }
            6 => {
                // someip / can like
                let a = {
                    let n = *rng.pick(&[9usize, 10, 4]);
                    rng.bytes(n)
                };
                let b = {
                    let n = 8 + rng.usize_below(24);
                    rng.bytes(n)
                };
                let (p, _) = encode(&[Val::Raw(a), Val::Raw(b)], be);
                let mtin = *rng.pick(&[1u8, 2]);
                pending.push(mk(rng, 1 | (2 << 1) | (mtin << 4), 2, b"NWT\0", b"TC\0\0", p));
            }
            7 => {
                let (p, _) = encode(&[Val::Str("2022/01/01 12:00:00.000 123.456789 journal text".into())], be);
                pending.push(mk(rng, 0x41, 1, b"SYS\0", b"JOUR", p));
            }
            8 => {
                // muniic like
                let mut vals: Vec<Val> = (0..13).map(|_| Val::U32(rng.next_u32())).collect();
                vals[7] = Val::U32(1228779599);
                vals[8] = Val::U32(*rng.pick(&[3478824001u32, 0]));
                vals[12] = Val::Raw({
                    let n = rng.usize_below(16);
                    rng.bytes(n)
                });
                let (p, _) = encode(&vals, be);
                pending.push(mk(rng, 0x41, 13, b"MUN\0", b"MMSG", p));
            }
            _ => {
                // arbitrary shape without extended header etc.
                let mut m = gen_msg(rng, false, &o);
                m.secs = secs;
                if m.timestamp.is_some() {
                    m.timestamp = Some(ts);
                }
                pending.push(m);
            }
        }
        for mut m in pending.drain(..) {
            // structure preserving truncation / extension of the payload (headers stay consistent)
            match rng.below(12) {
                0 | 1 => {
                    let t = 1 + rng.usize_below(4);
                    let l = m.payload.len().saturating_sub(t);
                    m.payload.truncate(l);
                }
                2 => {
                    let n = 1 + rng.usize_below(3);
                    let extra = rng.bytes(n);
                    m.payload.extend_from_slice(&extra);
                }
                _ => {}
            }
            let off = bytes.len();
            offsets.push(off);
            m.encode_into(&mut bytes, None);
            // field map
            fields.push((off + 4, 4, "secs"));
            fields.push((off + 16, 1, "htyp"));
            fields.push((off + 18, 2, "len"));
            let mut p = off + 20;
            if m.std_ecu.is_some() {
                p += 4;
            }
            if m.session_id.is_some() {
                p += 4;
            }
            if m.timestamp.is_some() {
                fields.push((p, 4, "timestamp"));
                p += 4;
            }
            if m.ext.is_some() {
                fields.push((p, 1, "msin"));
                fields.push((p + 1, 1, "noar"));
                p += 10;
            }
            let pl = m.payload.len();
            if let Some(cl) = pending_ctrl_lens.take() {
                for o in cl {
                    if o + 2 <= pl {
                        fields.push((p + o, 2, "ctrl-length-field"));
                    }
                }
            }
            if pl >= 4 {
                fields.push((p, 4, "payload-first-word"));
            }
            if pl >= 6 {
                fields.push((p + 4, 2, "payload-second-field"));
            }
            if pl >= 5 {
                fields.push((p + 4, 1, "payload-byte4"));
            }
            if pl >= 12 {
                let at = 4 + rng.usize_below(pl - 8);
                fields.push((p + at, 4, "payload-random-word"));
            }
            k += 1;
        }
        ts = ts.wrapping_add(rng.below(5000) as u32);
        if rng.chance(1, 10) {
            secs += rng.below(100) as u32;
            if rng.chance(1, 4) {
                ts = rng.below(1000) as u32; // reboot
            }
        }
    }
    RichTrace { bytes, offsets, fields }
}

fn mutate_bytes(rng: &mut Rng, b: &mut Vec<u8>, trace: Option<&RichTrace>) -> String {
    if b.is_empty() {
        return "none".into();
    }
    let ops = 1 + rng.usize_below(4);
    let mut names = vec![];
    for _ in 0..ops {
        let op = rng.below(if trace.is_some() { 9 } else { 6 });
        match op {
            0 => {
                let at = rng.usize_below(b.len());
                b[at] ^= 1 << rng.below(8);
                names.push("bitflip");
            }
            1 => {
                let at = rng.usize_below(b.len());
                b[at] = *rng.pick(&[0u8, 0xff, 0x7f, 0x80, 1, b'D']);
                names.push("byteset");
            }
            2 => {
                let l = 1 + rng.usize_below(b.len().min(64));
                let from = rng.usize_below(b.len() - l + 1);
                let to = rng.usize_below(b.len() - l + 1);
                let chunk = b[from..from + l].to_vec();
                b[to..to + l].copy_from_slice(&chunk);
                names.push("splice");
            }
            3 => {
                let at = match trace {
                    Some(t) if rng.chance(1, 2) && !t.offsets.is_empty() => {
                        // at a structural boundary
                        let o = *rng.pick(&t.offsets);
                        (o + *rng.pick(&[0usize, 4, 16, 17, 19, 20, 24, 30])).min(b.len())
                    }
                    _ => rng.usize_below(b.len() + 1),
                };
                b.truncate(at);
                names.push("truncate");
                if b.is_empty() {
                    break;
                }
            }
            4 => {
                let at = rng.usize_below(b.len() + 1);
                let n = 1 + rng.usize_below(16);
                let ins = rng.bytes(n);
                b.splice(at..at, ins);
                names.push("insert");
            }
            5 => {
                let l = 1 + rng.usize_below(b.len().min(32));
                let at = rng.usize_below(b.len() - l + 1);
                b.drain(at..at + l);
                names.push("delete");
                if b.is_empty() {
                    break;
                }
            }
            _ => {
                // field targeted
                let t = trace.unwrap();
                if t.fields.is_empty() {
                    continue;
                }
                let (off, w, kind) = *rng.pick(&t.fields);
                if off + w <= b.len() {
                    let v: u32 = match rng.below(8) {
                        0 => 0,
                        1 => u32::MAX,
                        2 => 1,
                        3 => 0x7fff_ffff,
                        4 => 0x8000_0000,
                        5 => rng.next_u32(),
                        6 => 7,
                        _ => 0xffff,
                    };
                    let bytes = if rng.chance(1, 2) { v.to_be_bytes() } else { v.to_le_bytes() };
                    match rng.below(3) {
                        0 => {
                            for i in 0..w {
                                b[off + i] = bytes[i % 4];
                            }
                        }
                        1 => {
                            b[off + w - 1] = b[off + w - 1].wrapping_add(*rng.pick(&[1u8, 2, 255, 254]));
                        }
                        _ => {
                            b[off] = b[off].wrapping_add(*rng.pick(&[1u8, 0x80, 255]));
                        }
                    }
                    names.push(kind);
                }
            }
        }
    }
    names.join("+")
}

fn gen_asc_line(rng: &mut Rng) -> String {
    let t = match rng.below(8) {
        0 => "0.000000".to_string(),
        1 => format!("{}.{:06}", rng.below(100000), rng.below(1000000)),
        2 => "-1.5".to_string(),
        3 => "99999999999999999999.999999".to_string(),
        4 => format!("{}", rng.below(1000)),
        5 => "1e9".to_string(),
        _ => format!("{}.{:03}", rng.below(100), rng.below(1000)),
    };
    let ch = *rng.pick(&["1", "2", "0", "255", "99999999999", "CANFD", "-1", "x"]);
    let id = *rng.pick(&["36f", "126", "1FFFFFFFx", "ffffffffffff", "0", "zz", "7ff", "12345678"]);
    let dir = *rng.pick(&["Rx", "Tx", "rx", "??"]);
    let dlc: u32 = *rng.pick(&[0u32, 1, 8, 9, 15, 64, 255, 4000000000]);
    let nbytes = match rng.below(4) {
        0 => dlc.min(70) as usize,
        1 => 0,
        _ => rng.usize_below(12),
    };
    let data: Vec<String> = (0..nbytes).map(|_| if rng.chance(1, 20) { (*rng.pick(&["zz", "ä", "1ä", "ä1", "€", "0"])).to_string() } else { format!("{:02x}", rng.next_u8()) }).collect();
    match rng.below(8) {
        0 => format!("{} {} {} {} d {} {} Length = 0 BitCount = 0 ID = 879", t, ch, id, dir, dlc, data.join(" ")),
        1 => format!("{} CANFD {} {} {} 1 0 d {} {} {} 0 0 0 0 0 0 0 0", t, ch, dir, id, dlc, nbytes, data.join(" ")),
        2 => format!("{} {} ErrorFrame", t, ch),
        3 => format!("{} CANFD {} {} ErrorFrame Not Acknowledge error, dominant error flag fffe c7 31ca Rx 0 0 f 0 1f 0 0 0 0 0 0 0 0", t, ch, dir),
        4 => format!("date {} {} {} {}:{}:{} {} {}", rng.pick(&["Tue", "Xxx", ""]), rng.pick(&["Apr", "Foo", "13"]), rng.below(40), rng.below(30), rng.below(70), rng.below(70), rng.pick(&["AM", "PM", "am", ""]), rng.below(3000)),
        5 => format!("//BusMapping: CAN {} = {}", ch, rng.pick(&["IuK_CAN", "", "Ä_CAN", "A_very_long_name_for_a_can_bus_with_many_chars"])),
        6 => format!("{} {} {} {} r", t, ch, id, dir),
        _ => format!("{} {} {}             {} d {} {}", t, ch, id, dir, dlc, data.join(" ")),
    }
}

fn gen_logcat_line(rng: &mut Rng) -> String {
    let lvl = *rng.pick(&["I", "D", "W", "E", "V", "F", "X", ""]);
    // incl. whitespace-only tags of different lengths (all of them abbreviate to the same apid)
    let tag = *rng.pick(&["auditd", "liblog", "ActivityManager", "ä", "A_B_C_D", "CamelCaseTagName", "", " ", "  ", "\t", "x y", "日本語タグ", "日本語タグ2", "T", "äö", " äö", "äö ", "aä", " aä", "öa", " öa"]);
    match rng.below(8) {
        0 => format!("{:>10}.{:03} {:5} {:5} {} {:<7}: {}", rng.below(100000), rng.below(1000), rng.below(99999), rng.below(99999), lvl, tag, "message text"),
        1 => format!("{:02}-{:02} {:02}:{:02}:{:02}.{:03} {:5} {:5} {} {}: {}", rng.below(14), rng.below(33), rng.below(25), rng.below(61), rng.below(61), rng.below(1000), rng.below(99999), rng.below(99999), lvl, tag, "threadtime message"),
        2 => format!("9999999999999999999.{:03} {:5} {:5} {} {}: huge secs", rng.below(1000), 1, 1, lvl, tag),
        3 => "--------- beginning of main".to_string(),
        4 => format!("{}.{} 1 1 {} {}: short", rng.below(100), rng.below(10), lvl, tag),
        5 => format!("12-31 23:59:59.999 {} {} {} {}: year wrap", rng.below(99999), rng.below(99999), lvl, tag),
        6 => format!("    {}.{:03}  {}  {} {} {} : {}", rng.below(100), rng.below(1000), rng.below(1000), rng.below(1000), lvl, tag, "x".repeat(rng.usize_below(300))),
        _ => format!("{}", String::from_utf8_lossy(&rng.bytes(20))),
    }
}

fn gen_genlog_line(rng: &mut Rng) -> String {
    let tag: String = match rng.below(9) {
        0 => "conftest".into(),
        1 => "xtf_common.process.process_wrapper".into(),
        2 => "ä".into(),
        3 => "äöü".into(),
        4 => "日本".into(),
        5 => "x".repeat(70000),
        6 => format!("Tag{}", rng.below(2000)),
        7 => (*rng.pick(&["", " ", "  ", "   ", "\t", "äö", " äö", "äö ", "aä", " aä", "öab", " öab"])).into(),
        _ => "a_b".into(),
    };
    match rng.below(6) {
        0 => format!("[{:04}-{:02}-{:02} {:02}:{:02}:{:02}.{:03}] [{}] [{}] text", 1900 + rng.below(300), rng.below(14), rng.below(33), rng.below(25), rng.below(61), rng.below(61), rng.below(1000), rng.pick(&["INF", "ERR", "WRN", "DBG", "", "X"]), tag),
        1 => format!("[99999999999999-01-01 00:00:00.000] [INF] [{}] overflow year", tag),
        2 => format!("[2024-03-09 23:01:31.627] [INF] [{}", tag),
        3 => "-------------------------------- live log setup --------------------------------".into(),
        4 => format!("[2024-03-09 23:01:31] [INF] [{}] no millis", tag),
        _ => format!("[] [] [{}]", tag),
    }
}

pub fn gen_input(rng: &mut Rng, corpus: &Corpus) -> Input {
    let fmt = if std::env::var("VMON_C03_TEXT_ONLY").is_ok() { 12 + rng.below(8) } else { rng.below(20) };
    if fmt < 11 {
        // dlt
        if fmt == 10 && std::env::var("VMON_TINY").is_err() {
            // a lifecycle scenario (several ECUs, boots, resumes, hostile timestamps, targeted confirm-then-merge patterns)
            // written as a DLT file: the structured inputs on which the lifecycle bookkeeping (detection, listing,
            // sorting) takes its rare paths; 1/3 with byte mutations on top
            let s = match rng.below(3) {
                0 => crate::lcgen::gen_targeted(rng),
                1 => crate::lcgen::gen_scenario(rng, true, 120),
                _ => crate::lcgen::gen_scenario(rng, false, 120),
            };
            let mut bytes = Vec::new();
            for m in crate::lcgen::to_dlt(&s, 1) {
                let _ = m.to_write(&mut bytes);
            }
            let m = if rng.chance(1, 3) { mutate_bytes(rng, &mut bytes, None) } else { "none".to_string() };
            return Input { ext: "dlt", bytes, origin: "generated-lifecycle-scenario".into(), mutation: m };
        }
        if rng.chance(1, 3) && !corpus.dlt.is_empty() {
            let (name, b) = rng.pick(&corpus.dlt);
            let l = if std::env::var("VMON_TINY").is_ok() { 100 + rng.usize_below(600) } else { 200 + rng.usize_below(20000) };
            let from = if b.len() > l { rng.usize_below(b.len() - l) } else { 0 };
            let mut bytes = b[from..(from + l).min(b.len())].to_vec();
            let m = mutate_bytes(rng, &mut bytes, None);
            Input { ext: "dlt", bytes, origin: format!("{}@{}", name, from), mutation: m }
        } else {
            let n = 1 + rng.usize_below(if std::env::var("VMON_TINY").is_ok() { 5 } else { 60 });
            let t = gen_rich_trace(rng, n);
            let mut bytes = t.bytes.clone();
            let m = if rng.chance(1, 10) { "none".to_string() } else { mutate_bytes(rng, &mut bytes, Some(&t)) };
            Input { ext: "dlt", bytes, origin: "generated-trace".into(), mutation: m }
        }
    } else if fmt < 12 {
        // serial framing
        let o = StreamOpts { max_msgs: 30, ..Default::default() };
        let c = gen_stream(rng, true, &o);
        let mut bytes = c.bytes;
        let m = mutate_bytes(rng, &mut bytes, None);
        Input { ext: "dlt", bytes, origin: "generated-serial".into(), mutation: m }
    } else {
        let (ext, examples, lines): (&'static str, &Vec<(String, Vec<u8>)>, Vec<String>) = if fmt < 15 {
            ("asc", &corpus.asc, (0..1 + rng.usize_below(40)).map(|_| gen_asc_line(rng)).collect())
        } else if fmt < 18 {
            ("txt", &corpus.txt, (0..1 + rng.usize_below(40)).map(|_| gen_logcat_line(rng)).collect())
        } else {
            ("log", &corpus.log, (0..1 + rng.usize_below(30)).map(|_| gen_genlog_line(rng)).collect())
        };
        let mut text = String::new();
        let mut origin = "grammar".to_string();
        if rng.chance(1, 3) && !examples.is_empty() {
            let (name, b) = rng.pick(examples);
            let s = String::from_utf8_lossy(b);
            let all: Vec<&str> = s.lines().collect();
            let take = 1 + rng.usize_below(30);
            let from = rng.usize_below(all.len().max(1));
            for l in all.iter().skip(from).take(take) {
                text.push_str(l);
                text.push('\n');
            }
            origin = format!("{}+grammar", name);
        }
        for l in lines {
            text.push_str(&l);
            text.push_str(if rng.chance(1, 10) { "\r\n" } else { "\n" });
        }
        let mut bytes = text.into_bytes();
        let m = if rng.chance(1, 2) { mutate_bytes(rng, &mut bytes, None) } else { "none".into() };
        Input { ext, bytes, origin, mutation: m }
    }
}

// ---------------------------------------------------------------- the chain

pub struct ChainResult {
    pub msgs: usize,
    pub reached_lifecycle: bool,
    pub reached_plugins: bool,
    /// (stage, panic class, detail)
    pub panics: Vec<(String, String, String)>,
    pub max_alloc: usize,
}

fn fixed_filters() -> Vec<Filter> {
    [
        r#"{"type":0,"ecu":"ECU1"}"#,
        r#"{"type":0,"apid":"AP|SYS","apidIsRegex":true,"ctid":"CTX1"}"#,
        r#"{"type":1,"verb_mstp_mtin":65}"#,
        r#"{"type":0,"mstp":3}"#,
        r#"{"type":0,"logLevelMin":2,"logLevelMax":5}"#,
        r#"{"type":0,"payload":"abc","ignoreCasePayload":true}"#,
        r#"{"type":0,"payloadRegex":"^.*\\d+(?<n>x)?"}"#,
        r#"{"type":3,"payload":"journal"}"#,
        r#"{"type":0,"lifecycles":[1,2],"not":true}"#,
    ]
    .iter()
    .map(|j| Filter::from_json(j).unwrap())
    .collect()
}

pub fn run_chain(inp: &Input, allow_save: bool) -> ChainResult {
    let mut res = ChainResult { msgs: 0, reached_lifecycle: false, reached_plugins: false, panics: vec![], max_alloc: 0 };
    MAX_ALLOC.store(0, Ordering::Relaxed);
    let mut stage = |name: &str, res: &mut ChainResult, f: &mut dyn FnMut()| {
        if let Err(pi) = crate::guard::catch(|| f()) {
            res.panics.push((name.to_string(), pi.class(), format!("{}:{} {}", pi.file, pi.line, pi.msg.chars().take(160).collect::<String>())));
        }
    };
    // 1. read
    let msgs: RefCell<Vec<DltMessage>> = RefCell::new(Vec::new());
    stage("read", &mut res, &mut || {
        let ns = get_new_namespace();
        let reader = LowMarkBufReader::new(std::io::Cursor::new(&inp.bytes[..]), 512 * 1024, adlt::dlt::DLT_MAX_STORAGE_MSG_SIZE);
        let it = get_dlt_message_iterator(inp.ext, 0, reader, ns, None, Some(1_700_000_000_000_000), None);
        for m in it {
            msgs.borrow_mut().push(m);
            if msgs.borrow().len() > 200_000 {
                break;
            }
        }
    });
    let msgs = msgs.into_inner();
    res.msgs = msgs.len();
    // 2. render / re-serialise
    stage("header-text", &mut res, &mut || {
        let mut sink = Vec::with_capacity(256);
        for m in &msgs {
            sink.clear();
            let _ = m.header_as_text_to_write(&mut sink);
        }
    });
    stage("payload-text", &mut res, &mut || {
        for m in &msgs {
            let _ = m.payload_as_text();
        }
    });
    stage("arg-iteration", &mut res, &mut || {
        let mut n = 0usize;
        for m in &msgs {
            for a in m {
                n += a.payload_raw.len();
            }
        }
        std::hint::black_box(n);
    });
    stage("to_write", &mut res, &mut || {
        let mut sink = Vec::with_capacity(70000);
        for m in &msgs {
            sink.clear();
            let _ = m.to_write(&mut sink);
        }
    });
    // 3. statistics
    stage("eac-stats", &mut res, &mut || {
        let mut st = EacStats::new();
        for m in &msgs {
            st.add_msg(m);
        }
    });
    // 4. lifecycles + listing
    let with_lc: RefCell<Vec<DltMessage>> = RefCell::new(Vec::with_capacity(msgs.len()));
    let (lcs_r, lcs_w) = new_table();
    let mut lcs_w = Some(lcs_w);
    stage("lifecycle", &mut res, &mut || {
        let (tx, rx) = std::sync::mpsc::channel();
        for m in &msgs {
            tx.send(m.clone()).unwrap();
        }
        drop(tx);
        let w = parse_lifecycles_buffered_from_stream(lcs_w.take().unwrap(), rx, &|m| {
            with_lc.borrow_mut().push(m);
            Ok(())
        });
        lcs_w = Some(w);
    });
    res.reached_lifecycle = !msgs.is_empty();
    stage("lifecycle-listing", &mut res, &mut || {
        if let Some(rr) = lcs_r.read() {
            let v = get_sorted_lifecycles_as_vec(&rr);
            std::hint::black_box(v.len());
        }
    });
    let with_lc = with_lc.into_inner();
    let base = if with_lc.len() == msgs.len() { &with_lc } else { &msgs };
    // 5. sort
    stage("sort", &mut res, &mut || {
        let (tx, rx) = std::sync::mpsc::channel();
        for m in base.iter() {
            tx.send(m.clone()).unwrap();
        }
        drop(tx);
        let n = std::cell::Cell::new(0usize);
        let _ = buffer_sort_messages(
            rx,
            &|_m| {
                n.set(n.get() + 1);
                Ok(())
            },
            &lcs_r,
            3,
            2_000_000,
        );
    });
    // 6. filters
    stage("filters", &mut res, &mut || {
        let fs = fixed_filters();
        let mut n = 0;
        for m in base.iter() {
            for f in &fs {
                if f.matches(m) {
                    n += 1;
                }
            }
        }
        std::hint::black_box(n);
    });
    // 7. plugins
    stage("plugins", &mut res, &mut || {
        let mut eac = EacStats::new();
        let mut plugins: Vec<Box<dyn Plugin + Send>> = Vec::new();
        let ft = json!({"name":"FileTransfer","allowSave":allow_save,"keepFLDA":!allow_save});
        let tiny = std::env::var("VMON_TINY").is_ok();
        for cfg in if tiny { vec![ft.clone()] } else { vec![
            ft.clone(),
            json!({"name":"NonVerbose","fibexDir":"/repo/tests/"}),
            json!({"name":"NonVerbose","fibexDir":crate::c19::RICH_FIBEX_DIR}),
            json!({"name":"SomeIp","fibexDir":"/repo/tests/"}),
            json!({"name":"CAN","fibexDir":"/repo/tests/"}),
            json!({"name":"Muniic","jsonDir":"/repo/tests/muniic"}),
            serde_json::from_str(&std::fs::read_to_string("/repo/tests/rewrite.cfg").unwrap_or_default()).unwrap_or(json!({"name":"Rewrite","rewrites":[]})),
        ] } {
            if let Some(p) = get_plugin(cfg.as_object().unwrap(), &mut eac) {
                plugins.push(p);
            }
        }
        plugins.push(Box::new(AnonymizePlugin::new("anon")));
        let (tx, rx) = std::sync::mpsc::channel();
        for m in base.iter() {
            tx.send(m.clone()).unwrap();
        }
        drop(tx);
        let _ = plugins_process_msgs(rx, &|m| {
            let _ = m.payload_as_text();
            Ok(())
        }, plugins);
    });
    res.reached_plugins = !msgs.is_empty();
    drop(lcs_w);
    res.max_alloc = MAX_ALLOC.load(Ordering::Relaxed);
    res
}

// ---------------------------------------------------------------- worker (child process)

fn input_json(inp: &Input) -> serde_json::Value {
    json!({"kind":"c03","ext": inp.ext, "origin": inp.origin, "mutation": inp.mutation, "bytes_hex": if inp.bytes.len() <= 100_000 { hex(&inp.bytes) } else { format!("<{} bytes>", inp.bytes.len()) }})
}

pub fn case_input(p: &Params, i: u64, corpus: &Corpus) -> Input {
    let mut rng = Rng::new(p.case_seed(i) ^ 0xC03);
    gen_input(&mut rng, corpus)
}

fn worker(p: &Params) -> Report {
    let mut rep = Report::new("C03");
    rep.max_violations = 40;
    let tiny = std::env::var("VMON_TINY").is_ok();
    let corpus = if tiny { Corpus { dlt: vec![], asc: vec![], txt: vec![], log: vec![] } } else { load_corpus() };
    let from: u64 = p.val("from").and_then(|v| v.parse().ok()).unwrap_or(0);
    let count: u64 = p.val("count").and_then(|v| v.parse().ok()).unwrap_or(1000);
    let only = p.val("only").is_some();
    // baseline: allocation sizes of the chain on an empty input (input independent reservations)
    let empty = Input { ext: "dlt", bytes: vec![], origin: "empty".into(), mutation: "none".into() };
    let b0 = run_chain(&empty, true).max_alloc;
    let one = {
        let mut rng = Rng::new(1);
        let t = gen_rich_trace(&mut rng, 3);
        Input { ext: "dlt", bytes: t.bytes, origin: "baseline".into(), mutation: "none".into() }
    };
    let b1 = if tiny { b0 } else { run_chain(&one, true).max_alloc };
    let baseline = b0.max(b1);
    rep.max("baseline_largest_allocation", baseline as u64);
    let stdout = std::io::stdout();
    for i in from..from + count {
        if p.time_up() {
            break;
        }
        {
            let mut o = stdout.lock();
            let _ = writeln!(o, "P {}", i);
            let _ = o.flush();
        }
        let inp = case_input(p, i, &corpus);
        let r = run_chain(&inp, i % 2 == 0);
        rep.inc("evaluations");
        rep.add("messages", r.msgs as u64);
        rep.inc(&format!("format_{}", inp.ext));
        if r.reached_lifecycle {
            rep.inc("inputs_reaching_lifecycle_and_plugins");
            rep.inc("nontrivial");
            let first_mut = inp.mutation.split('+').next().unwrap_or("").to_string();
            let last_mut = inp.mutation.split('+').last().unwrap_or("").to_string();
            rep.sig_str(&format!("{}/{}/{}/{}/{}", inp.ext, inp.origin.split('@').next().unwrap_or(""), first_mut, last_mut, (r.msgs as f64).log2() as u32));
        }
        for (stage, class, detail) in &r.panics {
            rep.inc(&format!("panics_in_stage_{}", stage));
            rep.violation(class, format!("stage {}: panic at {}", stage, detail), input_json(&inp));
        }
        rep.max("largest_allocation", r.max_alloc as u64);
        if r.max_alloc > ALLOC_SLACK + 1024 * inp.bytes.len() && r.max_alloc != baseline && r.max_alloc != b0 && r.max_alloc != b1 {
            rep.violation("alloc:unrelated-to-input-size", format!("largest single allocation request {} bytes for an input of {} bytes (input independent baseline {})", r.max_alloc, inp.bytes.len(), baseline), input_json(&inp));
        }
        if rep.want_sample() && r.msgs > 2 && inp.bytes.len() < 300 && inp.mutation != "none" {
            rep.sample(json!({"format": inp.ext, "origin": inp.origin, "mutation": inp.mutation, "messages_parsed": r.msgs, "input_hex": hex(&inp.bytes)}));
        }
        if only {
            break;
        }
    }
    rep
}

// ---------------------------------------------------------------- supervisor

enum ChildEnd {
    Finished,
    Died(String, u64),
    Stuck(u64),
}

fn run_child(p: &Params, from: u64, count: u64, only: bool, out: &str, stall_secs: u64) -> ChildEnd {
    let exe = std::env::current_exe().expect("current exe");
    let mut cmd = std::process::Command::new(exe);
    cmd.arg("c03").arg("--seed").arg(p.seed.to_string()).arg("--shard").arg(p.shard.to_string()).arg("--of").arg(p.of.to_string()).arg("--tier").arg(if p.thorough { "thorough" } else { "quick" }).arg("--secs").arg("1000000").arg("--out").arg(out).arg("worker=1").arg(format!("from={}", from)).arg(format!("count={}", count));
    if only {
        cmd.arg("only=1");
    }
    cmd.stdout(std::process::Stdio::piped()).stderr(std::process::Stdio::null());
    let mut child = match cmd.spawn() {
        Ok(c) => c,
        Err(e) => return ChildEnd::Died(format!("spawn failed: {}", e), from),
    };
    let so = child.stdout.take().unwrap();
    let (tx, rx) = std::sync::mpsc::channel::<u64>();
    let t = std::thread::spawn(move || {
        let br = std::io::BufReader::new(so);
        for l in br.lines().map_while(Result::ok) {
            if let Some(n) = l.strip_prefix("P ") {
                if let Ok(n) = n.trim().parse::<u64>() {
                    if tx.send(n).is_err() {
                        break;
                    }
                }
            }
        }
    });
    let mut last = from;
    loop {
        match rx.recv_timeout(std::time::Duration::from_secs(stall_secs)) {
            Ok(n) => last = n,
            Err(std::sync::mpsc::RecvTimeoutError::Timeout) => {
                // still alive?
                match child.try_wait() {
                    Ok(Some(_)) => break,
                    _ => {
                        let _ = child.kill();
                        let _ = child.wait();
                        let _ = t.join();
                        return ChildEnd::Stuck(last);
                    }
                }
            }
            Err(std::sync::mpsc::RecvTimeoutError::Disconnected) => break,
        }
    }
    let st = child.wait();
    let _ = t.join();
    match st {
        Ok(s) if s.success() => ChildEnd::Finished,
        Ok(s) => {
            use std::os::unix::process::ExitStatusExt;
            ChildEnd::Died(match s.signal() { Some(sig) => format!("signal {}", sig), None => format!("exit code {:?}", s.code()) }, last)
        }
        Err(e) => ChildEnd::Died(format!("wait failed {}", e), last),
    }
}

fn merge_into(rep: &mut Report, path: &str) {
    if let Ok(s) = std::fs::read_to_string(path) {
        if let Ok(v) = serde_json::from_str::<serde_json::Value>(&s) {
            if let Some(c) = v["counters"].as_object() {
                for (k, n) in c {
                    if k != "wall_ms" {
                        rep.add(k, n.as_u64().unwrap_or(0));
                    }
                }
            }
            if let Some(c) = v["maxima"].as_object() {
                for (k, n) in c {
                    rep.max(k, n.as_u64().unwrap_or(0));
                }
            }
            if let Some(a) = v["sigs"].as_array() {
                for s in a {
                    if let Some(s) = s.as_str() {
                        if let Ok(h) = u64::from_str_radix(s, 16) {
                            rep.sig(h);
                        }
                    }
                }
            }
            if let Some(a) = v["samples"].as_array() {
                for s in a {
                    rep.sample(s.clone());
                }
            }
            if let Some(a) = v["violations"].as_array() {
                for x in a {
                    rep.violation(x["class"].as_str().unwrap_or("?"), x["detail"].as_str().unwrap_or("").to_string(), x["replay"].clone());
                }
            }
            if let Some(c) = v["violation_classes"].as_object() {
                for (k, n) in c {
                    // violation() above counted the kept witnesses; add the rest
                    let kept = v["violations"].as_array().map(|a| a.iter().filter(|x| x["class"] == *k).count() as u64).unwrap_or(0);
                    let extra = n.as_u64().unwrap_or(0).saturating_sub(kept);
                    if extra > 0 {
                        *rep.violation_classes.entry(k.clone()).or_insert(0) += extra;
                    }
                }
            }
        }
        let _ = std::fs::remove_file(path);
    }
}

pub fn run(p: &Params) -> Report {
    if p.has("worker=1") {
        return worker(p);
    }
    let mut rep = Report::new("C03");
    rep.max_violations = 60;
    if let Some(path) = &p.replay {
        // run the chain on the recorded input in this process (a crash is then visible as the exit status)
        let v: serde_json::Value = serde_json::from_str(&std::fs::read_to_string(path).expect("read")).expect("parse");
        let r = if v.get("replay").is_some() { v["replay"].clone() } else { v };
        let ext: &'static str = match r["ext"].as_str().unwrap_or("dlt") {
            "asc" => "asc",
            "txt" => "txt",
            "log" => "log",
            _ => "dlt",
        };
        let inp = Input { ext, bytes: unhex(r["bytes_hex"].as_str().unwrap_or("")), origin: "replay".into(), mutation: "".into() };
        let res = run_chain(&inp, true);
        rep.inc("evaluations");
        for (stage, class, detail) in &res.panics {
            rep.violation(class, format!("stage {}: panic at {}", stage, detail), input_json(&inp));
        }
        return rep;
    }
    let batch: u64 = 1000;
    let mut next = 0u64;
    let tmp_out = format!("{}.child", p.out);
    let corpus = load_corpus();
    while (p.cases == 0 || next < p.cases) && !p.time_up() {
        match run_child(p, next, batch, false, &tmp_out, 25) {
            ChildEnd::Finished => {
                merge_into(&mut rep, &tmp_out);
                next += batch;
            }
            ChildEnd::Died(how, at) => {
                rep.inc("worker_crashes");
                // confirm with that input alone
                let confirm = run_child(p, at, 1, true, &tmp_out, 120);
                let inp = case_input(p, at, &corpus);
                match confirm {
                    ChildEnd::Died(how2, _) => rep.violation(&format!("abort:{}", how2), format!("worker process died ({}) on input {} (reproduced alone: {})", how, at, how2), input_json(&inp)),
                    _ => {
                        rep.inc("inconclusive_crash_not_reproducible");
                        rep.note(format!("worker died ({}) at input {} but the input alone passes: inconclusive", how, at));
                        merge_into(&mut rep, &tmp_out);
                    }
                }
                rep.add("evaluations_lost_by_crash", at - next);
                next = at + 1;
            }
            ChildEnd::Stuck(at) => {
                rep.inc("watchdog_fired");
                let confirm = run_child(p, at, 1, true, &tmp_out, 120);
                let inp = case_input(p, at, &corpus);
                match confirm {
                    ChildEnd::Stuck(_) => rep.violation("no-termination", format!("input {} did not finish within 120 s alone ({} bytes)", at, inp.bytes.len()), input_json(&inp)),
                    ChildEnd::Died(how2, _) => rep.violation(&format!("abort:{}", how2), format!("input {} alone: worker died ({})", at, how2), input_json(&inp)),
                    ChildEnd::Finished => {
                        rep.inc("inconclusive_slow_under_load");
                        merge_into(&mut rep, &tmp_out);
                    }
                }
                next = at + 1;
            }
        }
    }
    rep
}
