//! per shard report: counters, distinct signatures, samples, violations. Written as JSON and merged by ./check
use serde_json::{json, Value};
use std::collections::{BTreeMap, HashSet};

#[derive(Debug, Clone)]
pub struct Violation {
    /// narrow class used to match known findings (exact string match)
    pub class: String,
    pub detail: String,
    /// materialised input needed to replay
    pub replay: Value,
}

pub struct Report {
    pub prop: String,
    pub counters: BTreeMap<String, u64>,
    pub maxima: BTreeMap<String, u64>,
    pub sigs: HashSet<u64>,
    pub samples: Vec<Value>,
    pub violations: Vec<Violation>,
    pub violation_classes: BTreeMap<String, u64>,
    pub notes: Vec<String>,
    pub max_samples: usize,
    pub max_violations: usize,
    pub max_sigs: usize,
}

impl Report {
    pub fn new(prop: &str) -> Report {
        Report {
            prop: prop.to_string(),
            counters: BTreeMap::new(),
            maxima: BTreeMap::new(),
            sigs: HashSet::new(),
            samples: vec![],
            violations: vec![],
            violation_classes: BTreeMap::new(),
            notes: vec![],
            max_samples: 4,
            max_violations: 12,
            max_sigs: 400_000,
        }
    }
    #[inline]
    pub fn add(&mut self, key: &str, n: u64) {
        if let Some(v) = self.counters.get_mut(key) {
            *v += n;
        } else {
            self.counters.insert(key.to_string(), n);
        }
    }
    #[inline]
    pub fn inc(&mut self, key: &str) {
        self.add(key, 1)
    }
    pub fn max(&mut self, key: &str, n: u64) {
        let e = self.maxima.entry(key.to_string()).or_insert(0);
        if n > *e {
            *e = n;
        }
    }
    /// record a distinct non-trivial case signature
    pub fn sig(&mut self, s: u64) {
        if self.sigs.len() < self.max_sigs {
            self.sigs.insert(s);
        }
    }
    pub fn sig_str(&mut self, s: &str) {
        self.sig(crate::rng::sig(s))
    }
    pub fn want_sample(&self) -> bool {
        self.samples.len() < self.max_samples
    }
    pub fn sample(&mut self, v: Value) {
        if self.samples.len() < self.max_samples {
            self.samples.push(v);
        }
    }
    pub fn violation(&mut self, class: &str, detail: String, replay: Value) {
        *self.violation_classes.entry(class.to_string()).or_insert(0) += 1;
        // keep at most 3 per class and max_violations in total
        let same = self.violations.iter().filter(|v| v.class == class).count();
        if same < 3 && self.violations.len() < self.max_violations {
            self.violations.push(Violation {
                class: class.to_string(),
                detail,
                replay,
            });
        }
    }
    pub fn note(&mut self, s: String) {
        if self.notes.len() < 50 && !self.notes.contains(&s) {
            self.notes.push(s);
        }
    }
    pub fn to_json(&self) -> Value {
        let mut sigs: Vec<u64> = self.sigs.iter().copied().collect();
        sigs.sort_unstable();
        json!({
            "prop": self.prop,
            "counters": self.counters,
            "maxima": self.maxima,
            "sigs": sigs.iter().map(|s| format!("{:x}", s)).collect::<Vec<_>>(),
            "samples": self.samples,
            "violations": self.violations.iter().map(|v| json!({"class": v.class, "detail": v.detail, "replay": v.replay})).collect::<Vec<_>>(),
            "violation_classes": self.violation_classes,
            "notes": self.notes,
        })
    }
    pub fn write(&self, path: &str) {
        let s = serde_json::to_string(&self.to_json()).unwrap();
        std::fs::write(path, s).expect("write report");
    }
}

/// common run parameters of a shard
#[derive(Clone, Debug)]
pub struct Params {
    pub seed: u64,
    pub shard: u64,
    pub of: u64,
    pub thorough: bool,
    /// max number of cases (0 = no limit)
    pub cases: u64,
    /// wall clock budget in secs
    pub secs: f64,
    pub out: String,
    pub replay: Option<String>,
    pub extra: Vec<String>,
    pub start: std::time::Instant,
}
impl Params {
    pub fn time_up(&self) -> bool {
        self.start.elapsed().as_secs_f64() >= self.secs
    }
    /// iterate case numbers for this shard until the budget is used
    pub fn case_seed(&self, i: u64) -> u64 {
        // unique per (seed, shard, i)
        self.seed
            .wrapping_mul(0x9E3779B97F4A7C15)
            .wrapping_add(self.shard.wrapping_mul(0xD1B54A32D192ED03))
            .wrapping_add(i.wrapping_mul(0x8CB92BA72F3D8DD7))
    }
    pub fn has(&self, flag: &str) -> bool {
        self.extra.iter().any(|e| e == flag)
    }
    pub fn val(&self, key: &str) -> Option<String> {
        let k = format!("{}=", key);
        self.extra.iter().find(|e| e.starts_with(&k)).map(|e| e[k.len()..].to_string())
    }
}
