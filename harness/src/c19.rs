//! C19 plugins keep the stream intact; anonymisation keeps its structure
use crate::c18::{encode, mk_verbose_msg, Val};
use crate::lc::run_detector;
use crate::lcgen::*;
use crate::report::*;
use crate::rng::*;
use adlt::dlt::{DltChar4, DltExtendedHeader, DltMessage, DltStandardHeader};
use adlt::plugins::anonymize::AnonymizePlugin;
use adlt::plugins::factory::get_plugin;
use adlt::plugins::plugin::Plugin;
use adlt::plugins::plugins_process_msgs;
use adlt::utils::eac_stats::EacStats;
use serde_json::json;
use std::cell::RefCell;
use std::collections::HashMap;

pub const PLUGIN_NAMES: [&str; 6] = ["NonVerbose", "SomeIp", "CAN", "Muniic", "Rewrite", "NonVerboseRich"];
/// harness owned FIBEX (one non-verbose frame per signal type, ECU EcuR)
pub const RICH_FIBEX_DIR: &str = concat!(env!("CARGO_MANIFEST_DIR"), "/fibex");
/// (frame id offset from 900000000, byte length) of the frames in fibex/nv_rich.xml
pub const RICH_FRAMES: [(u32, usize); 21] = [(1, 1), (2, 2), (3, 4), (4, 8), (5, 1), (6, 2), (7, 4), (8, 8), (9, 4), (10, 1), (11, 2), (12, 4), (13, 8), (14, 6), (15, 5), (16, 3), (17, 7), (18, 2), (40, 70), (41, 0), (42, 0)];

fn plugin_config(name: &str) -> serde_json::Value {
    match name {
        "NonVerbose" => json!({"name":"NonVerbose","fibexDir":"/repo/tests/"}),
        "NonVerboseRich" => json!({"name":"NonVerbose","fibexDir":RICH_FIBEX_DIR}),
        "SomeIp" => json!({"name":"SomeIp","fibexDir":"/repo/tests/"}),
        "CAN" => json!({"name":"CAN","fibexDir":"/repo/tests/"}),
        "Muniic" => json!({"name":"Muniic","jsonDir":"/repo/tests/muniic"}),
        _ => serde_json::from_str(&std::fs::read_to_string("/repo/tests/rewrite.cfg").unwrap_or_else(|_| "{\"name\":\"Rewrite\",\"rewrites\":[]}".into())).unwrap_or(json!({"name":"Rewrite","rewrites":[]})),
    }
}

fn ecu_of(rng: &mut Rng) -> DltChar4 {
    DltChar4::from_buf(*rng.pick(&[b"Ecu1", b"ECU1", b"CAN1", b"E001", b"ABCD"]))
}

/// traffic that matches / almost matches / does not match the plugins
pub fn gen_traffic(rng: &mut Rng, n: usize) -> Vec<(DltMessage, u8)> {
    let mut v = Vec::with_capacity(n);
    for i in 0..n {
        let class = rng.below(9) as u8;
        let be = rng.chance(1, 3);
        let mut m = match class {
            0 => {
                // non verbose, ids from the repository FIBEX files (and near misses) or from the harness' rich FIBEX
                let rich = rng.chance(1, 2);
                let (id, extra) = if rich {
                    let (off, bl) = *rng.pick(&RICH_FRAMES);
                    let n = match rng.below(6) {
                        0 => bl.saturating_sub(1),
                        1 => bl + 1,
                        2 => rng.usize_below(80),
                        _ => bl,
                    };
                    (900000000 + off, rng.bytes(n))
                } else {
                    let id: u32 = *rng.pick(&[805312382u32, 805834673, 800000000, 805312383, 1, 0]);
                    let n = rng.usize_below(40);
                    (id, rng.bytes(n))
                };
                let mut p = if be { id.to_be_bytes().to_vec() } else { id.to_le_bytes().to_vec() };
                p.extend_from_slice(&extra);
                let mut m = mk_verbose_msg(p, 0, be);
                if rng.chance(1, 2) {
                    m.extended_header = None;
                    m.standard_header.htyp &= !1;
                } else {
                    m.extended_header.as_mut().unwrap().verb_mstp_mtin = 0x40; // non verbose log info
                }
                m.ecu = DltChar4::from_buf(if rich { b"EcuR" } else if rng.chance(3, 4) { b"Ecu1" } else { b"ECU1" });
                m
            }
            1 => {
                // SOME/IP like: nw trace ipc, 2 raw args
                let hdr = {
                    let n = *rng.pick(&[9usize, 10, 8, 0, 20]);
                    rng.bytes(n)
                };
                let mut someip = vec![];
                someip.extend_from_slice(&(*rng.pick(&[64098u16, 1, 0xffff])).to_be_bytes()); // service id
                someip.extend_from_slice(&rng.next_u32().to_be_bytes()[..2]);
                let l = rng.usize_below(30);
                someip.extend_from_slice(&((8 + l) as u32).to_be_bytes());
                someip.extend_from_slice(&rng.bytes(8 + l));
                if rng.chance(1, 4) {
                    someip.truncate(rng.usize_below(someip.len() + 1));
                }
                let (p, _) = encode(&[Val::Raw(hdr), Val::Raw(someip)], be);
                let mut m = mk_verbose_msg(p, 2, be);
                m.extended_header.as_mut().unwrap().verb_mstp_mtin = 1 | (2 << 1) | (1 << 4); // nw trace ipc verbose
                m.extended_header.as_mut().unwrap().ctid = DltChar4::from_buf(b"TC\0\0");
                m
            }
            2 => {
                // CAN like: nw trace can, frame id + data
                let id: u32 = if rng.chance(1, 2) { rng.below(0x800) as u32 } else { rng.next_u32() };
                let data = {
                    let n = rng.usize_below(10);
                    rng.bytes(n)
                };
                let (p, _) = encode(&[Val::Raw(if be { id.to_be_bytes().to_vec() } else { id.to_le_bytes().to_vec() }), Val::Raw(data)], be);
                let mut m = mk_verbose_msg(p, 2, be);
                m.extended_header.as_mut().unwrap().verb_mstp_mtin = 1 | (2 << 1) | (2 << 4);
                m.extended_header.as_mut().unwrap().ctid = DltChar4::from_buf(b"TC\0\0");
                m.ecu = DltChar4::from_buf(b"CAN1");
                m
            }
            3 => {
                // muniic: 13 args, ctid MMSG
                let mut vals: Vec<Val> = (0..13).map(|k| if k == 12 { Val::Raw({ let n = rng.usize_below(20); rng.bytes(n) }) } else { Val::U32(rng.next_u32()) }).collect();
                vals[7] = Val::U32(*rng.pick(&[1228779599u32, 5, 0]));
                vals[8] = Val::U32(*rng.pick(&[3478824001u32, 2944352002, 0, 7]));
                let (p, _) = encode(&vals, be);
                let mut m = mk_verbose_msg(p, if rng.chance(1, 8) { 12 } else { 13 }, be);
                m.extended_header.as_mut().unwrap().ctid = DltChar4::from_buf(b"MMSG");
                m
            }
            4 => {
                // rewrite: SYS/JOUR texts
                let t = *rng.pick(&["2022/01/01 12:00:00.000 123.456789 some journal text", "a b 1.5 text", "no match here", "x y 99999999999.1 t"]);
                let (p, _) = encode(&[Val::Str(t.into())], be);
                let mut m = mk_verbose_msg(p, 1, be);
                m.extended_header.as_mut().unwrap().apid = DltChar4::from_buf(b"SYS\0");
                m.extended_header.as_mut().unwrap().ctid = DltChar4::from_buf(b"JOUR");
                m
            }
            5 => {
                // control messages
                let mut p = (*rng.pick(&[3u32, 19, 0xf01, 0xf02, 0xf03, 7])).to_le_bytes().to_vec();
                let n = rng.usize_below(30);
                p.extend_from_slice(&rng.bytes(n));
                let mut m = mk_verbose_msg(p, 1, false);
                m.extended_header.as_mut().unwrap().verb_mstp_mtin = (3 << 1) | (if rng.chance(1, 2) { 2 } else { 1 } << 4);
                m
            }
            _ => {
                // ordinary verbose log
                let (p, _) = encode(&[Val::Str("ordinary log".into()), Val::U32(i as u32)], be);
                let mut m = mk_verbose_msg(p, 2, be);
                if rng.chance(1, 6) {
                    m.extended_header = None;
                    m.standard_header.htyp &= !1;
                }
                m
            }
        };
        if class > 0 && class != 2 {
            m.ecu = ecu_of(rng);
        }
        v.push((m, class));
    }
    // complete, well-formed segmented SOME/IP transfers (announcement, all chunks in order with the announced size, end
    // marker; class 9): the plugin reassembles and decodes them - and must not touch anything but the text
    for _ in 0..rng.usize_below(3) {
        let be = rng.chance(1, 4);
        let seg_id = rng.next_u32() % 8;
        let tag = |t: &[u8; 4]| {
            let mut x = t.to_vec();
            x.push(0);
            Val::Ascii(x)
        };
        let nr_chunks = 1 + rng.below(4) as u16;
        let chunk_size = 8 + rng.below(24) as u16;
        let last_len = 1 + rng.usize_below(chunk_size as usize);
        let mut body = vec![];
        body.extend_from_slice(&64098u16.to_be_bytes());
        body.extend_from_slice(&(*rng.pick(&[1000u16, 1, 0x8001])).to_be_bytes());
        let total = (nr_chunks as usize - 1) * chunk_size as usize + last_len;
        body.extend_from_slice(&(total as u32).to_be_bytes());
        while body.len() < total {
            body.push(rng.next_u8());
        }
        body.truncate(total);
        let hl = *rng.pick(&[9usize, 10, 12]);
        let hdr = rng.bytes(hl);
        let ecu = ecu_of(rng);
        let mk = |vals: Vec<Val>, noar: u8| {
            let (p, _) = encode(&vals, be);
            let mut m = mk_verbose_msg(p, noar, be);
            m.extended_header.as_mut().unwrap().verb_mstp_mtin = 1 | (2 << 1) | (1 << 4);
            m.extended_header.as_mut().unwrap().ctid = DltChar4::from_buf(b"TC\0\0");
            m.ecu = ecu;
            m
        };
        let mut seq = vec![mk(vec![tag(b"NWST"), Val::Raw(seg_id.to_le_bytes().to_vec()), Val::Raw(hdr), Val::U32(0), Val::Raw(nr_chunks.to_le_bytes().to_vec()), Val::Raw(chunk_size.to_le_bytes().to_vec())], 6)];
        for c in 0..nr_chunks as usize {
            let from = c * chunk_size as usize;
            let to = (from + chunk_size as usize).min(total);
            seq.push(mk(vec![tag(b"NWCH"), Val::Raw(seg_id.to_le_bytes().to_vec()), Val::Raw((c as u16).to_le_bytes().to_vec()), Val::Raw(body[from..to].to_vec())], 4));
        }
        seq.push(mk(vec![tag(b"NWEN"), Val::Raw(seg_id.to_le_bytes().to_vec())], 2));
        let at = rng.usize_below(v.len() + 1);
        for (k, m) in seq.into_iter().enumerate() {
            v.insert(at + k, (m, 9));
        }
    }
    for (i, (m, _)) in v.iter_mut().enumerate() {
        m.index = i as u32;
        m.reception_time_us = 1_600_000_000_000_000 + i as u64 * 1000;
        m.timestamp_dms = i as u32 * 10;
        m.lifecycle = 1 + (i as u32 / 50);
        m.standard_header.mcnt = i as u8;
    }
    v
}

fn run_plugins(msgs: &[DltMessage], plugins: Vec<Box<dyn Plugin + Send>>) -> Result<Vec<DltMessage>, crate::guard::PanicInfo> {
    let (tx, rx) = std::sync::mpsc::channel();
    for m in msgs {
        tx.send(m.clone()).unwrap();
    }
    drop(tx);
    let out: RefCell<Vec<DltMessage>> = RefCell::new(Vec::with_capacity(msgs.len()));
    crate::guard::catch(|| {
        let _ = plugins_process_msgs(
            rx,
            &|m| {
                out.borrow_mut().push(m);
                Ok(())
            },
            plugins,
        );
    })?;
    Ok(out.into_inner())
}

fn decoding_case(rep: &mut Report, rng: &mut Rng) {
    // subset and order of plugins
    let mut names: Vec<&str> = PLUGIN_NAMES.iter().copied().filter(|_| rng.chance(1, 2)).collect();
    if names.is_empty() {
        names.push(*rng.pick(&PLUGIN_NAMES));
    }
    rng.shuffle(&mut names);
    let mut eac = EacStats::new();
    let mut plugins: Vec<Box<dyn Plugin + Send>> = Vec::new();
    for n in &names {
        let cfg = plugin_config(n);
        match crate::guard::catch(|| get_plugin(cfg.as_object().unwrap(), &mut eac)) {
            Ok(Some(p)) => plugins.push(p),
            Ok(None) => {
                rep.violation("plugin-not-created", format!("factory::get_plugin returned None for {}", n), json!({"plugin": n}));
                return;
            }
            Err(pi) => {
                rep.violation(&pi.class(), format!("plugin {} construction panicked at {}:{} {}", n, pi.file, pi.line, pi.msg), json!({"plugin": n}));
                return;
            }
        }
    }
    let rewrite_active = names.contains(&"Rewrite");
    let n = 20 + rng.usize_below(200);
    let traffic = gen_traffic(rng, n);
    let msgs: Vec<DltMessage> = traffic.iter().map(|t| t.0.clone()).collect();
    rep.inc("evaluations");
    rep.add("messages", n as u64);
    let rp = || json!({"kind":"c19-plugins","plugins": names, "messages": msgs.len()});
    let out = match run_plugins(&msgs, plugins) {
        Ok(o) => o,
        Err(pi) => {
            rep.violation(&pi.class(), format!("panic at {}:{} {}", pi.file, pi.line, pi.msg), rp());
            return;
        }
    };
    if out.len() != msgs.len() {
        let class = if out.len() < msgs.len() { "plugins:message-removed" } else { "plugins:message-duplicated" };
        rep.violation(class, format!("{} of {} messages forwarded by {:?}", out.len(), msgs.len(), names), rp());
        return;
    }
    let mut changed_text = 0u64;
    for (k, (a, b)) in msgs.iter().zip(out.iter()).enumerate() {
        let bad = if a.index != b.index {
            Some("index/order")
        } else if a.reception_time_us != b.reception_time_us {
            Some("reception_time")
        } else if a.ecu != b.ecu {
            Some("ecu")
        } else if a.payload != b.payload {
            Some("payload")
        } else if a.lifecycle != b.lifecycle {
            Some("lifecycle")
        } else if a.timestamp_dms != b.timestamp_dms && !rewrite_active {
            Some("timestamp")
        } else if a.extended_header.is_some() && a.extended_header != b.extended_header {
            Some("extended_header")
        } else if a.standard_header.mcnt != b.standard_header.mcnt || a.standard_header.len != b.standard_header.len || (a.standard_header.htyp | 1) != (b.standard_header.htyp | 1) {
            Some("standard_header")
        } else {
            None
        };
        if let Some(f) = bad {
            rep.violation(&format!("plugins:altered:{}", f), format!("message {} (traffic class {}): field {} changed by plugins {:?}", k, traffic[k].1, f, names), rp());
            return;
        }
        if a.payload_text != b.payload_text {
            changed_text += 1;
            rep.inc(&format!("text_changed_traffic_class_{}", traffic[k].1));
        }
        if a.extended_header.is_none() && b.extended_header.is_some() {
            rep.inc("extended_header_added");
        }
        if a.timestamp_dms != b.timestamp_dms {
            rep.inc("timestamp_rewritten");
        }
    }
    rep.add("messages_with_changed_text", changed_text);
    if changed_text > 0 {
        rep.inc("nontrivial");
        let mut s: Vec<u8> = names.iter().map(|n| PLUGIN_NAMES.iter().position(|x| x == n).unwrap() as u8).collect();
        s.push(0xff);
        s.push((changed_text.min(20)) as u8);
        rep.sig(fnv(&s));
        if rep.want_sample() {
            rep.sample(json!({"plugins_in_order": names, "messages": n, "messages_with_changed_text": changed_text, "example_text": out.iter().find_map(|m| m.payload_text.clone()).map(|t| t.chars().take(80).collect::<String>())}));
        }
    }
}

/// "only file-transfer data packages (when so configured) may be dropped": a FileTransfer plugin with random
/// apid / ctid restriction and keepFLDA on/off processes data packages, announcements, end markers and near misses from
/// the configured and from other applications. Specification of the dropped set: keepFLDA off, application matches the
/// configured ids, verbose log info, 5 arguments, first and last argument the ASCII string "FLDA".
fn file_transfer_drop_case(rep: &mut Report, rng: &mut Rng) {
    let ids: [&[u8; 4]; 4] = [b"SYS\0", b"FILE", b"APP1", b"X\0\0\0"];
    let cfg_apid: Option<&[u8; 4]> = if rng.chance(2, 3) { Some(*rng.pick(&ids)) } else { None };
    let cfg_ctid: Option<&[u8; 4]> = if rng.chance(2, 3) { Some(*rng.pick(&ids)) } else { None };
    let keep = rng.chance(1, 3);
    let s4 = |b: &[u8; 4]| String::from_utf8_lossy(&b[..b.iter().position(|c| *c == 0).unwrap_or(4)]).to_string();
    let mut cfg = json!({"name":"FileTransfer","allowSave":false,"keepFLDA":keep});
    if let Some(a) = cfg_apid {
        cfg["apid"] = json!(s4(a));
    }
    if let Some(c) = cfg_ctid {
        cfg["ctid"] = json!(s4(c));
    }
    let mut eac = EacStats::new();
    let plugin = match crate::guard::catch(|| get_plugin(cfg.as_object().unwrap(), &mut eac)) {
        Ok(Some(p)) => p,
        Ok(None) => {
            rep.violation("plugin-not-created", format!("factory::get_plugin returned None for {}", cfg), json!({"cfg": cfg}));
            return;
        }
        Err(pi) => {
            rep.violation(&pi.class(), format!("plugin construction panicked at {}:{} {}", pi.file, pi.line, pi.msg), json!({"cfg": cfg}));
            return;
        }
    };
    let tag = |t: &[u8; 4]| {
        let mut v = t.to_vec();
        v.push(0);
        Val::Ascii(v)
    };
    let n = 20 + rng.usize_below(100);
    let mut msgs = Vec::with_capacity(n);
    let mut expect_drop = Vec::with_capacity(n);
    for i in 0..n {
        let be = rng.chance(1, 4);
        let serial = 1 + rng.below(3) as u32;
        // shape of the message
        let shape = rng.below(10);
        let (vals, noar): (Vec<Val>, u8) = match shape {
            0..=3 => (vec![tag(b"FLDA"), Val::U32(serial), Val::I32(1 + rng.below(4) as i32), Val::Raw(rng.bytes(8)), tag(b"FLDA")], 5),
            4 => (vec![tag(b"FLST"), Val::U32(serial), Val::Str("f.bin".into()), Val::U32(32), Val::Str("d".into()), Val::U32(4), Val::U32(8), tag(b"FLST")], 8),
            5 => (vec![tag(b"FLFI"), Val::U32(serial), tag(b"FLFI")], 3),
            6 => (vec![tag(b"FLDA"), Val::U32(serial), Val::I32(1), Val::Raw(rng.bytes(8)), tag(b"FLDX")], 5), // last argument differs
            7 => (vec![tag(b"FLDA"), Val::U32(serial), Val::I32(1), tag(b"FLDA")], 4),                            // 4 arguments
            8 => (vec![Val::Str("FLDA".into()), Val::U32(serial), Val::I32(1), Val::Raw(rng.bytes(8)), Val::Str("FLDA".into())], 5), // utf8 instead of ascii
            _ => (vec![Val::Str("ordinary".into()), Val::U32(i as u32)], 2),
        };
        let (p, _) = encode(&vals, be);
        let mut m = mk_verbose_msg(p, noar, be);
        let apid = *rng.pick(&ids);
        let ctid = *rng.pick(&ids);
        let mut vmm: u8 = 0x41; // verbose log info
        match rng.below(12) {
            0 => vmm = 0x40, // non verbose
            1 => vmm = 0x31, // log warn
            2 => vmm = 0x43, // app trace
            _ => {}
        }
        let no_ext = rng.chance(1, 15);
        if no_ext {
            m.extended_header = None;
            m.standard_header.htyp &= !1;
        } else {
            let e = m.extended_header.as_mut().unwrap();
            e.apid = DltChar4::from_buf(apid);
            e.ctid = DltChar4::from_buf(ctid);
            e.verb_mstp_mtin = vmm;
        }
        m.index = i as u32;
        m.reception_time_us = 1_600_000_000_000_000 + i as u64 * 1000;
        m.lifecycle = 1;
        let app_matches = !no_ext && cfg_apid.map_or(true, |a| a == apid) && cfg_ctid.map_or(true, |c| c == ctid);
        expect_drop.push(!keep && app_matches && vmm == 0x41 && shape <= 3);
        msgs.push(m);
    }
    rep.inc("evaluations");
    rep.inc("file_transfer_drop_cases");
    let rp = || json!({"kind":"c19-ft-drop","cfg": cfg, "messages": msgs.len()});
    let out = match run_plugins(&msgs, vec![plugin]) {
        Ok(o) => o,
        Err(pi) => {
            rep.violation(&pi.class(), format!("panic at {}:{} {}", pi.file, pi.line, pi.msg), rp());
            return;
        }
    };
    let expected: Vec<&DltMessage> = msgs.iter().zip(expect_drop.iter()).filter(|(_, d)| !**d).map(|(m, _)| m).collect();
    let got_idx: Vec<u32> = out.iter().map(|m| m.index).collect();
    let exp_idx: Vec<u32> = expected.iter().map(|m| m.index).collect();
    if got_idx != exp_idx {
        let wrongly_dropped: Vec<u32> = exp_idx.iter().filter(|i| !got_idx.contains(i)).copied().take(5).collect();
        let wrongly_kept: Vec<u32> = got_idx.iter().filter(|i| !exp_idx.contains(i)).copied().take(5).collect();
        let class = if !wrongly_dropped.is_empty() { "file-transfer:dropped-a-message-that-is-no-data-package-of-the-configured-application" } else { "file-transfer:data-package-not-dropped-or-order-changed" };
        rep.violation(class, format!("config {}: wrongly dropped {:?}, wrongly kept {:?} ({} messages)", cfg, wrongly_dropped, wrongly_kept, msgs.len()), rp());
        return;
    }
    for (a, b) in expected.iter().zip(out.iter()) {
        if a.payload != b.payload || a.ecu != b.ecu || a.reception_time_us != b.reception_time_us || a.extended_header != b.extended_header || a.lifecycle != b.lifecycle {
            rep.violation("file-transfer:altered", format!("message {} changed by the FileTransfer plugin", a.index), rp());
            return;
        }
    }
    rep.add("file_transfer_messages_dropped_as_specified", expect_drop.iter().filter(|d| **d).count() as u64);
    if expect_drop.iter().any(|d| *d) && expect_drop.iter().any(|d| !*d) {
        rep.inc("nontrivial");
        rep.sig(fnv(&[0xf7, cfg_apid.is_some() as u8, cfg_ctid.is_some() as u8, keep as u8, (expect_drop.iter().filter(|d| **d).count().min(15)) as u8]));
    }
}

fn anon_case(rep: &mut Report, rng: &mut Rng, i: u64) {
    let hostile = rng.chance(1, 3);
    let s = gen_scenario(rng, hostile, 120);
    let mut msgs = to_dlt(&s, i as u32);
    // id populations: ecus incl. ids that look like pseudonyms, apids/ctids
    let ecus: Vec<[u8; 4]> = {
        let mut v = vec![*b"ECU1", *b"E001", *b"E002", *b"E003", *b"ABCD", *b"E\0\0\0"];
        rng.shuffle(&mut v);
        v
    };
    let n_ap_max = if rng.chance(1, 20) { 900 } else { 12 };
    let n_ap = 1 + rng.usize_below(n_ap_max);
    for m in msgs.iter_mut() {
        // the scenario generator uses ecu ids by index: remap to our population
        let idx = ecu_index(&m.ecu);
        m.ecu = DltChar4::from_buf(&ecus[idx % ecus.len()]);
        if let Some(e) = m.extended_header.as_mut() {
            if e.verb_mstp_mtin & 0x0e == 0 {
                let a = rng.usize_below(n_ap);
                let c = rng.usize_below(n_ap);
                e.apid = DltChar4::from_buf(format!("A{:03}", (a * 7) % 1000).as_bytes());
                e.ctid = DltChar4::from_buf(format!("{:04}", (c * 13) % 10000).as_bytes());
                // 1/10: a log message without any payload (verbose, no arguments)
                if rng.chance(1, 10) {
                    m.payload.clear();
                    e.noar = 0;
                    e.verb_mstp_mtin |= 1;
                }
            }
        }
    }
    rep.inc("evaluations");
    rep.inc("anonymisation_runs");
    let rp = || json!({"kind":"c19-anon","scenario": scenario_json(&s), "ecu_order": ecus.iter().map(|e| String::from_utf8_lossy(e).to_string()).collect::<Vec<_>>()});
    let out = match run_plugins(&msgs, vec![Box::new(AnonymizePlugin::new("anon"))]) {
        Ok(o) => o,
        Err(pi) => {
            rep.violation(&pi.class(), format!("panic at {}:{} {}", pi.file, pi.line, pi.msg), rp());
            return;
        }
    };
    if out.len() != msgs.len() {
        rep.violation("anon:conservation", format!("{} of {} messages", out.len(), msgs.len()), rp());
        return;
    }
    let mut emap: HashMap<[u8; 4], [u8; 4]> = HashMap::new();
    let mut erev: HashMap<[u8; 4], [u8; 4]> = HashMap::new();
    let mut amap: HashMap<([u8; 4], [u8; 4]), [u8; 4]> = HashMap::new();
    let mut arev: HashMap<([u8; 4], [u8; 4]), [u8; 4]> = HashMap::new();
    let mut cmap: HashMap<([u8; 4], [u8; 4], [u8; 4]), [u8; 4]> = HashMap::new();
    let mut crev: HashMap<([u8; 4], [u8; 4], [u8; 4]), [u8; 4]> = HashMap::new();
    for (k, (a, b)) in msgs.iter().zip(out.iter()).enumerate() {
        if a.index != b.index || a.reception_time_us != b.reception_time_us || a.timestamp_dms != b.timestamp_dms || a.standard_header.has_timestamp() != b.standard_header.has_timestamp() {
            rep.violation("anon:times-or-order-changed", format!("message {}: index/reception time/timestamp changed", k), rp());
            return;
        }
        let (e, e2) = (*a.ecu.as_buf(), *b.ecu.as_buf());
        if *emap.entry(e).or_insert(e2) != e2 {
            rep.violation("anon:ecu-not-a-function", format!("message {}: ecu {:?} mapped to {:?} and {:?}", k, a.ecu, DltChar4::from_buf(&emap[&e]), b.ecu), rp());
            return;
        }
        if *erev.entry(e2).or_insert(e) != e {
            rep.violation("anon:ecu-not-injective", format!("message {}: ecus {:?} and {:?} share the pseudonym {:?}", k, a.ecu, DltChar4::from_buf(&erev[&e2]), b.ecu), rp());
            return;
        }
        match (&a.extended_header, &b.extended_header) {
            (Some(x), Some(y)) => {
                let (ap, ap2, ct, ct2) = (*x.apid.as_buf(), *y.apid.as_buf(), *x.ctid.as_buf(), *y.ctid.as_buf());
                if *amap.entry((e, ap)).or_insert(ap2) != ap2 {
                    rep.violation("anon:apid-not-a-function", format!("message {}", k), rp());
                    return;
                }
                if *arev.entry((e, ap2)).or_insert(ap) != ap {
                    rep.violation("anon:apid-not-injective", format!("message {}", k), rp());
                    return;
                }
                if *cmap.entry((e, ap, ct)).or_insert(ct2) != ct2 {
                    rep.violation("anon:ctid-not-a-function", format!("message {}", k), rp());
                    return;
                }
                if *crev.entry((e, ap, ct2)).or_insert(ct) != ct {
                    rep.violation("anon:ctid-not-injective", format!("message {}", k), rp());
                    return;
                }
                if x.verb_mstp_mtin != y.verb_mstp_mtin {
                    rep.violation("anon:type-changed", format!("message {}", k), rp());
                    return;
                }
            }
            (None, None) => {}
            _ => {
                rep.violation("anon:extended-header-presence", format!("message {}", k), rp());
                return;
            }
        }
    }
    rep.add("pseudonyms_issued", (emap.len() + amap.len() + cmap.len()) as u64);
    // lifecycles of the re-exported anonymised trace vs the original
    let reexport: Vec<DltMessage> = {
        let mut bytes = Vec::new();
        for m in &out {
            m.to_write(&mut bytes).unwrap();
        }
        // (the export keeps ecu, times, payload; index is reassigned from 0)
        adlt::utils::DltMessageIterator::new(0, std::io::Cursor::new(&bytes[..])).collect()
    };
    let use_reexport = reexport.len() == out.len() && msgs.iter().all(|m| m.reception_time_us % 1 == 0);
    let anon_in: Vec<DltMessage> = if use_reexport { reexport.into_iter().map(|mut m| { m.index = m.index.wrapping_mul(s.index_stride); m }).collect() } else { out.iter().map(|m| { let mut m = m.clone(); m.lifecycle = 0; m }).collect() };
    let orig_in: Vec<DltMessage> = msgs.iter().map(|m| { let mut m = m.clone(); m.lifecycle = 0; m }).collect();
    let r1 = run_detector(&[orig_in], false);
    let r2 = run_detector(&[anon_in], false);
    if r1.detector_panic.is_some() || r2.detector_panic.is_some() {
        rep.inc("anon_lifecycle_comparison_aborted_by_detector_panic");
        return;
    }
    // compare: per message assignment up to a bijection of ids, and (ecu', start, end, nr_msgs)
    let mut idmap: HashMap<u32, u32> = HashMap::new();
    let mut idrev: HashMap<u32, u32> = HashMap::new();
    for (k, (a, b)) in r1.out[0].iter().zip(r2.out[0].iter()).enumerate() {
        if *idmap.entry(a.lifecycle).or_insert(b.lifecycle) != b.lifecycle || *idrev.entry(b.lifecycle).or_insert(a.lifecycle) != a.lifecycle {
            rep.violation("anon:lifecycle-assignment-differs", format!("message {}: lifecycle assignment of the anonymised trace is not the same partition as of the original ({} lifecycles vs {})", k, r1.table.len(), r2.table.len()), rp());
            return;
        }
    }
    if r1.table.len() != r2.table.len() {
        rep.violation("anon:lifecycle-count-differs", format!("{} lifecycles on the original, {} on the anonymised trace", r1.table.len(), r2.table.len()), rp());
        return;
    }
    for l in &r1.table {
        let l2 = idmap.get(&l.id).and_then(|i| r2.table.iter().find(|x| x.id == *i));
        match l2 {
            Some(l2) if l2.start_time == l.start_time && l2.end_time == l.end_time && l2.nr_msgs == l.nr_msgs && emap.get(l.ecu.as_buf()) == Some(l2.ecu.as_buf()) => {}
            _ => {
                rep.violation("anon:lifecycle-boundaries-differ", format!("lifecycle {} ({:?} start {} end {} msgs {}) has no equal counterpart on the anonymised trace: {:?}", l.id, l.ecu, l.start_time, l.end_time, l.nr_msgs, l2), rp());
                return;
            }
        }
    }
    rep.inc("anon_lifecycle_tables_compared");
    if emap.len() >= 2 && r1.table.len() >= 2 {
        rep.inc("nontrivial");
        rep.sig(fnv(&[b'a', emap.len() as u8, (amap.len().min(50)) as u8, r1.table.len().min(30) as u8, hostile as u8, ecus.iter().position(|e| e == b"E001").unwrap() as u8]));
    }
}

fn ecu_index(e: &DltChar4) -> usize {
    (0..6).find(|i| &ecu_id(*i) == e).unwrap_or(0)
}

pub fn run(p: &Params) -> Report {
    let mut rep = Report::new("C19");
    if p.replay.is_some() {
        rep.note("C19 replay files carry the plugin list or the anonymisation scenario".into());
        return rep;
    }
    let mut i = 0u64;
    while (p.cases == 0 || i < p.cases) && !p.time_up() {
        let mut rng = Rng::new(p.case_seed(i) ^ 0xC19);
        i += 1;
        if i % 3 == 0 {
            anon_case(&mut rep, &mut rng, i);
        } else if i % 6 == 1 {
            file_transfer_drop_case(&mut rep, &mut rng);
        } else {
            decoding_case(&mut rep, &mut rng);
        }
    }
    let _ = (DltStandardHeader { htyp: 0, mcnt: 0, len: 0 }, DltExtendedHeader { verb_mstp_mtin: 0, noar: 0, apid: DltChar4::from_buf(b"----"), ctid: DltChar4::from_buf(b"----") });
    rep
}
