//! C17 embedded file transfers are reassembled bit-exactly or not at all (fault enumeration)
use crate::c18::{encode, mk_verbose_msg, Val};
use crate::lcgen::ecu_id;
use crate::report::*;
use crate::rng::*;
use adlt::dlt::DltMessage;
use adlt::plugins::file_transfer::FileTransferPlugin;
use adlt::plugins::plugin::Plugin;
use adlt::plugins::plugins_process_msgs;
use serde_json::json;
use std::cell::RefCell;
use std::collections::BTreeMap;
use std::path::{Path, PathBuf};

#[derive(Clone, Debug)]
pub struct Transfer {
    pub ecu: usize,
    pub lifecycle: u32,
    pub serial: u32,
    pub name: String,
    pub data: Vec<u8>,
    pub bs: usize,
    pub be: bool,
}

#[derive(Clone, Debug, PartialEq)]
pub enum Ev {
    Flst,
    Flda(u32, Vec<u8>),
    Flfi,
}

#[derive(Clone, Copy, Debug, PartialEq)]
pub enum Fault {
    None,
    Drop(usize),
    DupAdjacent(usize),
    DupDelayed(usize, usize),
    Swap(usize),
    Shrink(usize),
    Grow(usize),
    DropFlst,
    DropFlfi,
}

#[derive(Clone, Copy, Debug, PartialEq)]
pub enum Expect {
    Complete,
    NotComplete,
    /// both outcomes satisfy the statement (announcement lost: the documented recovery may or may not work)
    Either,
}

impl Transfer {
    pub fn n_packages(&self) -> usize {
        (self.data.len() + self.bs - 1) / self.bs
    }
    pub fn clean_events(&self) -> Vec<Ev> {
        let mut v = vec![Ev::Flst];
        for (k, c) in self.data.chunks(self.bs).enumerate() {
            v.push(Ev::Flda(k as u32 + 1, c.to_vec()));
        }
        v.push(Ev::Flfi);
        v
    }
}

/// events after the fault and the outcome the statement demands
pub fn apply_fault(t: &Transfer, f: Fault) -> (Vec<Ev>, Expect) {
    let mut ev = t.clean_events();
    let n = t.n_packages();
    // index of package k (1-based) within ev = k
    match f {
        Fault::None => (ev, Expect::Complete),
        Fault::Drop(k) => {
            ev.remove(k);
            (ev, Expect::NotComplete)
        }
        Fault::DupAdjacent(k) => {
            let e = ev[k].clone();
            ev.insert(k + 1, e);
            (ev, Expect::Complete)
        }
        Fault::DupDelayed(k, d) => {
            let e = ev[k].clone();
            let at = (k + 1 + d).min(n + 1); // at most right before FLFI
            ev.insert(at, e);
            (ev, Expect::Complete)
        }
        Fault::Swap(k) => {
            // swap package k and k+1 (k < n)
            ev.swap(k, k + 1);
            (ev, Expect::NotComplete)
        }
        Fault::Shrink(k) => {
            if let Ev::Flda(_, d) = &mut ev[k] {
                if d.len() > 1 {
                    d.pop();
                } else {
                    d.clear();
                }
            }
            (ev, Expect::NotComplete)
        }
        Fault::Grow(k) => {
            if let Ev::Flda(_, d) = &mut ev[k] {
                d.push(0x5a);
            }
            (ev, Expect::NotComplete)
        }
        Fault::DropFlst => {
            ev.remove(0);
            (ev, Expect::Either)
        }
        Fault::DropFlfi => {
            ev.pop();
            (ev, Expect::Complete)
        }
    }
}

pub fn all_faults(t: &Transfer, rng: &mut Rng, max_positions: usize) -> Vec<Fault> {
    let n = t.n_packages();
    let positions: Vec<usize> = if n <= max_positions {
        (1..=n).collect()
    } else {
        let mut p: Vec<usize> = vec![1, 2, n - 1, n];
        while p.len() < max_positions {
            p.push(1 + rng.usize_below(n));
        }
        p.sort_unstable();
        p.dedup();
        p
    };
    let mut v = vec![Fault::None, Fault::DropFlst, Fault::DropFlfi];
    for k in positions {
        v.push(Fault::Drop(k));
        v.push(Fault::DupAdjacent(k));
        if k < n {
            v.push(Fault::DupDelayed(k, 1 + rng.usize_below(n - k)));
            v.push(Fault::Swap(k));
        }
        v.push(Fault::Shrink(k));
        v.push(Fault::Grow(k));
    }
    v
}

fn ev_to_msg(t: &Transfer, e: &Ev, index: u32) -> DltMessage {
    let tag = |s: &[u8; 4]| {
        let mut v = s.to_vec();
        v.push(0);
        Val::Ascii(v)
    };
    let vals: Vec<Val> = match e {
        Ev::Flst => vec![
            tag(b"FLST"),
            Val::U32(t.serial),
            Val::Str(t.name.clone()),
            Val::U32(t.data.len() as u32),
            Val::Str("2024-01-01".into()),
            Val::U32(t.n_packages() as u32),
            Val::U32(t.bs as u32),
            tag(b"FLST"),
        ],
        Ev::Flda(k, d) => vec![tag(b"FLDA"), Val::U32(t.serial), Val::I32(*k as i32), Val::Raw(d.clone()), tag(b"FLDA")],
        Ev::Flfi => vec![tag(b"FLFI"), Val::U32(t.serial), tag(b"FLFI")],
    };
    let (pl, _) = encode(&vals, t.be);
    let mut m = mk_verbose_msg(pl, vals.len() as u8, t.be);
    m.index = index;
    m.ecu = ecu_id(t.ecu);
    m.lifecycle = t.lifecycle;
    m
}

fn unrelated_msg(index: u32, rng: &mut Rng) -> DltMessage {
    let vals = vec![Val::Str("unrelated".into()), Val::U32(rng.next_u32())];
    let (pl, _) = encode(&vals, false);
    let mut m = mk_verbose_msg(pl, 2, false);
    m.index = index;
    m.ecu = ecu_id(rng.usize_below(3));
    m.lifecycle = 1 + rng.below(3) as u32;
    m
}

pub struct CaseResult {
    pub violation: Option<(String, String)>,
    pub complete_ok: u64,
    pub incomplete_ok: u64,
    pub saved_compared: u64,
    pub auto_saved: u64,
}

fn list_dir(dir: &Path, out: &mut BTreeMap<PathBuf, Vec<u8>>) {
    if let Ok(rd) = std::fs::read_dir(dir) {
        for e in rd.flatten() {
            let p = e.path();
            if p.is_dir() {
                list_dir(&p, out);
            } else if let Ok(d) = std::fs::read(&p) {
                out.insert(p, d);
            }
        }
    }
}

/// run one case: transfers with their (faulted) event lists, interleaved
#[allow(clippy::too_many_arguments)]
pub fn run_case(transfers: &[(Transfer, Vec<Ev>, Expect, Fault)], order: &[usize], sandbox: &Path, case_no: u64, allow_save: bool, keep_flda: bool, auto_save: bool, rng: &mut Rng) -> CaseResult {
    let mut res = CaseResult { violation: None, complete_ok: 0, incomplete_ok: 0, saved_compared: 0, auto_saved: 0 };
    let case_dir = sandbox.join(format!("c{}", case_no));
    let auto_dir = case_dir.join("auto");
    std::fs::create_dir_all(&auto_dir).unwrap();
    // a pre-existing file that collides with the first transfer's base name
    let base0 = Path::new(&transfers[0].0.name).file_name().map(|s| s.to_string_lossy().to_string());
    let pre_existing = if auto_save && rng.chance(1, 4) {
        if let Some(b) = &base0 {
            let p = auto_dir.join(b);
            std::fs::write(&p, b"PRE-EXISTING").unwrap();
            Some(p)
        } else {
            None
        }
    } else {
        None
    };
    let outside = case_dir.join("outside.bin");
    std::fs::write(&outside, b"OUTSIDE").unwrap();
    let mut cfg = serde_json::Map::new();
    cfg.insert("name".into(), json!("ft"));
    cfg.insert("allowSave".into(), json!(allow_save));
    cfg.insert("keepFLDA".into(), json!(keep_flda));
    if auto_save {
        cfg.insert("autoSavePath".into(), json!(auto_dir.to_string_lossy()));
        cfg.insert("autoSaveGlob".into(), json!("*"));
    }
    let plugin = match FileTransferPlugin::from_json(&cfg) {
        Ok(p) => p,
        Err(e) => {
            res.violation = Some(("plugin-config-rejected".into(), format!("{}", e)));
            return res;
        }
    };
    // messages
    let mut cursors = vec![0usize; transfers.len()];
    let mut msgs = Vec::new();
    let mut idx = 0u32;
    let mut flda_indices = std::collections::HashSet::new();
    for &ti in order {
        let (t, evs, _, _) = &transfers[ti];
        if cursors[ti] < evs.len() {
            let e = &evs[cursors[ti]];
            cursors[ti] += 1;
            if matches!(e, Ev::Flda(..)) {
                flda_indices.insert(idx);
            }
            msgs.push(ev_to_msg(t, e, idx));
            idx += 1;
        }
        if rng.chance(1, 3) {
            msgs.push(unrelated_msg(idx, rng));
            idx += 1;
        }
    }
    let (tx, rx) = std::sync::mpsc::channel();
    for m in &msgs {
        tx.send(m.clone()).unwrap();
    }
    drop(tx);
    let out: RefCell<Vec<DltMessage>> = RefCell::new(Vec::new());
    let r = crate::guard::catch(|| {
        plugins_process_msgs(
            rx,
            &|m| {
                out.borrow_mut().push(m);
                Ok(())
            },
            vec![Box::new(plugin)],
        )
    });
    let plugins = match r {
        Err(pi) => {
            res.violation = Some((pi.class(), format!("panic at {}:{} {}", pi.file, pi.line, pi.msg)));
            return res;
        }
        Ok(Err(_)) => {
            res.violation = Some(("plugin-stage-error".into(), "plugins_process_msgs returned an error".into()));
            return res;
        }
        Ok(Ok(p)) => p,
    };
    // stream conservation: only FLDA messages may disappear (and only with keepFLDA=false)
    let out = out.into_inner();
    let exp_out: Vec<&DltMessage> = msgs.iter().filter(|m| keep_flda || !flda_indices.contains(&m.index)).collect();
    if out.len() != exp_out.len() || out.iter().zip(exp_out.iter()).any(|(a, b)| a.index != b.index || a.payload != b.payload) {
        res.violation = Some(("stream-conservation".into(), format!("{} messages forwarded, expected {} (keepFLDA={})", out.len(), exp_out.len(), keep_flda)));
        return res;
    }
    let state_arc = plugins[0].state();
    let state = state_arc.read().unwrap();
    let items: Vec<serde_json::Value> = state.value["treeItems"].as_array().cloned().unwrap_or_default();
    let mut expected_auto: BTreeMap<PathBuf, Vec<Vec<u8>>> = BTreeMap::new();
    let mut optional_auto: Vec<(PathBuf, Vec<u8>)> = Vec::new();
    for (ti, (t, _evs, exp, fault)) in transfers.iter().enumerate() {
        let key = format!("{}, LC id={}, serial #{},", ecu_id(t.ecu), t.lifecycle, t.serial);
        let item = items.iter().skip(1).find(|i| i["tooltip"].as_str().map_or(false, |s| s.starts_with(&key)));
        let reported_complete = item.map_or(false, |i| i["iconPath"] == "file");
        let fname = format!("{:?}", fault).split('(').next().unwrap_or("").to_string();
        match (exp, reported_complete) {
            (Expect::NotComplete, true) => {
                res.violation = Some((format!("damaged-reported-complete:{}", fname), format!("transfer {} ({} bytes, package size {}, fault {:?}) is reported complete: {}", ti, t.data.len(), t.bs, fault, item.unwrap()["label"])));
                return res;
            }
            (Expect::Complete, false) => {
                res.violation = Some((format!("complete-not-reported:{}", fname), format!("transfer {} ({} bytes, package size {}, {} packages, fault {:?}) is not reported complete: {:?}", ti, t.data.len(), t.bs, t.n_packages(), fault, item.map(|i| i["label"].clone()))));
                return res;
            }
            _ => {}
        }
        if reported_complete {
            res.complete_ok += 1;
        } else {
            res.incomplete_ok += 1;
        }
        // the save command
        if let Some(cmd) = state.apply_command {
            let save_to = case_dir.join(format!("saved_{}", ti));
            let mut params = serde_json::Map::new();
            params.insert("saveAs".into(), json!(save_to.to_string_lossy()));
            if reported_complete && allow_save {
                let ctx = item.unwrap()["cmdCtx"].as_object().cloned();
                match ctx {
                    None => {
                        res.violation = Some(("complete-without-save-context".into(), format!("transfer {} complete with allowSave but no cmdCtx", ti)));
                        return res;
                    }
                    Some(ctx) => {
                        let ok = crate::guard::catch(|| cmd(&state.internal_data, "save", Some(&params), Some(&ctx))).unwrap_or(false);
                        let saved = std::fs::read(&save_to).unwrap_or_default();
                        if !ok || saved != t.data {
                            res.violation = Some((format!("saved-content-differs:{}", fname), format!("transfer {} (fault {:?}): save returned {} and wrote {} bytes, original has {}", ti, fault, ok, saved.len(), t.data.len())));
                            return res;
                        }
                        res.saved_compared += 1;
                        let _ = std::fs::remove_file(&save_to);
                    }
                }
            } else if !reported_complete {
                // save must refuse for every index
                for idx in 0..transfers.len() + 1 {
                    let ctx = json!({"save": {"basename": "x", "idx": idx}});
                    let before_exists = save_to.exists();
                    let ok = crate::guard::catch(|| cmd(&state.internal_data, "save", Some(&params), ctx.as_object())).unwrap_or(false);
                    if ok {
                        // allowed only if idx denotes another, complete transfer: compare content with all complete ones
                        let saved = std::fs::read(&save_to).unwrap_or_default();
                        let _ = std::fs::remove_file(&save_to);
                        if !transfers.iter().any(|(o, _, e, _)| o.data == saved && *e != Expect::NotComplete) {
                            res.violation = Some((format!("damaged-content-saved:{}", fname), format!("save idx {} wrote {} bytes that are not the content of a complete transfer (fault {:?})", idx, saved.len(), fault)));
                            return res;
                        }
                    } else if !before_exists && save_to.exists() {
                        let _ = std::fs::remove_file(&save_to);
                    }
                }
            }
        }
        if auto_save && reported_complete {
            if *fault == Fault::DropFlst {
                // the name was in the lost announcement: the recovered transfer is called <missing_flst>; saving it is optional
                optional_auto.push((auto_dir.join("<missing_flst>"), t.data.clone()));
            } else {
                let base = Path::new(&t.name).file_name().map(|s| s.to_string_lossy().to_string()).unwrap_or_else(|| format!("<invalid_filename serial {}>", t.serial));
                expected_auto.entry(auto_dir.join(base)).or_default().push(t.data.clone());
            }
        }
    }
    drop(state);
    // directory listing
    let mut after = BTreeMap::new();
    list_dir(&case_dir, &mut after);
    for (p, d) in &after {
        if p == &outside {
            if d != b"OUTSIDE" {
                res.violation = Some(("autosave:outside-file-changed".into(), format!("{}", p.display())));
                return res;
            }
            continue;
        }
        if Some(p) == pre_existing.as_ref() {
            if d != b"PRE-EXISTING" {
                res.violation = Some(("autosave:existing-file-overwritten".into(), format!("{} was overwritten", p.display())));
                return res;
            }
            continue;
        }
        if p.parent() != Some(auto_dir.as_path()) {
            res.violation = Some(("autosave:file-outside-directory".into(), format!("{} was created outside of {}", p.display(), auto_dir.display())));
            return res;
        }
        match expected_auto.get(p) {
            Some(cands) if cands.iter().any(|c| c == d) => res.auto_saved += 1,
            _ if optional_auto.iter().any(|(op, od)| op == p && od == d) => res.auto_saved += 1,
            _ => {
                res.violation = Some(("autosave:damaged-or-unexpected-file".into(), format!("{} ({} bytes) is not the content of a complete transfer of that name", p.display(), d.len())));
                return res;
            }
        }
    }
    for (p, cands) in &expected_auto {
        if !after.contains_key(p) && cands.iter().any(|c| !c.is_empty()) && Some(p) != pre_existing.as_ref() {
            res.violation = Some(("autosave:complete-file-missing".into(), format!("{} was not auto saved", p.display())));
            return res;
        }
    }
    let _ = std::fs::remove_dir_all(&case_dir);
    res
}

const NAMES: [&str; 10] = ["file.bin", "../x.bin", "/abs/y.bin", "a/b/c.bin", "..", "x/", "sp ace.bin", "ünï.bin", "file.bin", "core.dump"];

pub fn gen_transfer(rng: &mut Rng, size_class: usize, bs_class: usize, serial: u32) -> Transfer {
    let bs: usize = match bs_class {
        0 => 1,
        1 => 2,
        2 => 7,
        3 => 1024,
        _ => 0, // = file size
    };
    let base: usize = if bs == 0 { 1000 } else { bs };
    let size = match size_class {
        0 => 1,
        1 => base.saturating_sub(1).max(1),
        2 => base,
        3 => base + 1,
        4 => 3 * base,
        5 => 3 * base + 1,
        _ => {
            let mx = if bs <= 7 { 300 } else { 200 * 1024 };
            1 + rng.usize_below(mx)
        }
    };
    let bs = if bs == 0 { size } else { bs };
    Transfer { ecu: rng.usize_below(3), lifecycle: 1 + rng.below(3) as u32, serial, name: rng.pick(&NAMES).to_string(), data: rng.bytes(size), bs, be: rng.chance(1, 2) }
}

pub fn run(p: &Params) -> Report {
    let mut rep = Report::new("C17");
    if p.replay.is_some() {
        rep.note("C17 replay files describe the transfer (size, package size, fault, position) fully".into());
        return rep;
    }
    let sandbox = tempfile::tempdir().expect("tempdir");
    let mut case_no = 0u64;
    let mut i = 0u64;
    let max_pos = if p.thorough { 64 } else { 24 };
    while (p.cases == 0 || i < p.cases) && !p.time_up() {
        let mut rng = Rng::new(p.case_seed(i) ^ 0xC17);
        // walk through the (size class, package size) grid; one sample per iteration
        let size_class = (i % 7) as usize;
        let bs_class = ((i / 7) % 5) as usize;
        i += 1;
        let t = gen_transfer(&mut rng, size_class, bs_class, 100 + (i % 50) as u32);
        let faults = all_faults(&t, &mut rng, max_pos);
        rep.inc("samples");
        for f in faults {
            if p.time_up() {
                break;
            }
            let (evs, exp) = apply_fault(&t, f);
            // 1-4 concurrent transfers: the others are fault free or randomly faulted
            let n_other = *rng.pick(&[0usize, 0, 0, 1, 1, 2, 3]);
            let mut transfers = vec![(t.clone(), evs, exp, f)];
            for o in 0..n_other {
                let obc = rng.usize_below(5).clamp(1, 3);
                let mut ot = gen_transfer(&mut rng, 6, obc, 0);
                if ot.data.len() > 4000 {
                    ot.data.truncate(4000);
                }
                // distinct key: same serial allowed if ecu or lifecycle differ
                ot.serial = if rng.chance(1, 2) { t.serial } else { 500 + o as u32 };
                if ot.serial == t.serial && ot.ecu == t.ecu && ot.lifecycle == t.lifecycle {
                    ot.lifecycle += 5;
                }
                if transfers.iter().any(|(x, _, _, _)| x.serial == ot.serial && x.ecu == ot.ecu && x.lifecycle == ot.lifecycle) {
                    ot.serial = 900 + o as u32;
                }
                let of = if rng.chance(1, 3) {
                    let mut r2 = rng.clone();
                    let fl = all_faults(&ot, &mut r2, 4);
                    *rng.pick(&fl)
                } else {
                    Fault::None
                };
                let (oe, ox) = apply_fault(&ot, of);
                transfers.push((ot, oe, ox, of));
            }
            // interleaving: random merge of the event lists (all interleavings are reachable)
            let mut order = Vec::new();
            for (ti, (_, e, _, _)) in transfers.iter().enumerate() {
                for _ in 0..e.len() {
                    order.push(ti);
                }
            }
            if transfers.len() > 1 {
                rng.shuffle(&mut order);
            }
            let allow_save = !rng.chance(1, 5);
            let keep_flda = rng.chance(1, 3);
            let auto_save = rng.chance(2, 3);
            case_no += 1;
            let r = run_case(&transfers, &order, sandbox.path(), case_no, allow_save, keep_flda, auto_save, &mut rng);
            rep.inc("evaluations");
            rep.add("transfers_complete_as_expected", r.complete_ok);
            rep.add("transfers_incomplete_as_expected", r.incomplete_ok);
            rep.add("files_saved_and_compared", r.saved_compared);
            rep.add("files_auto_saved_and_compared", r.auto_saved);
            let fname = format!("{:?}", f).split('(').next().unwrap_or("").to_string();
            rep.inc(&format!("fault_{}", fname));
            if transfers.len() > 1 {
                rep.inc("cases_with_concurrent_transfers");
            }
            match r.violation {
                Some((class, detail)) => {
                    let _ = std::fs::remove_dir_all(sandbox.path().join(format!("c{}", case_no)));
                    rep.violation(&class, detail, json!({"kind":"c17","size": t.data.len(), "package_size": t.bs, "name": t.name, "big_endian": t.be, "fault": format!("{:?}", f), "concurrent": transfers.len() - 1, "allow_save": allow_save, "keep_flda": keep_flda, "auto_save": auto_save}));
                }
                None => {
                    let pos = match f {
                        Fault::Drop(k) | Fault::DupAdjacent(k) | Fault::DupDelayed(k, _) | Fault::Swap(k) | Fault::Shrink(k) | Fault::Grow(k) => k,
                        _ => 0,
                    };
                    rep.sig(fnv(format!("{}/{}/{}/{}", size_class, bs_class, fname, pos.min(70)).as_bytes()));
                    if rep.want_sample() && f != Fault::None && t.data.len() < 30 {
                        rep.sample(json!({"file_size": t.data.len(), "package_size": t.bs, "packages": t.n_packages(), "name": t.name, "fault": format!("{:?}", f), "expected": format!("{:?}", exp), "concurrent_transfers": transfers.len() - 1}));
                    }
                }
            }
        }
    }
    rep
}
