//! C11 (single filter semantics via every front-end) and C12 (filter sets)
use crate::report::*;
use crate::rng::*;
use adlt::dlt::{DltChar4, DltExtendedHeader, DltMessage, DltStandardHeader};
use adlt::filter::functions::{filter_as_streams, filters_from_convert_format, filters_from_dlf};
use adlt::filter::Filter;
use adlt::utils::remote_utils::{match_filters, process_stream_new_msgs, StreamContext};
use serde_json::json;
use std::cell::RefCell;

// ------------------------------------------------------------------ abstract filter + spec

#[derive(Clone, Debug, PartialEq)]
pub enum IdCrit {
    Lit(String),
    Regex(usize),
}
#[derive(Clone, Debug, PartialEq)]
pub enum VmmCrit {
    Vmm(u8),
    Mstp(u8),
}
#[derive(Clone, Debug, PartialEq)]
pub enum PayloadCrit {
    Text(String),
    Regex(usize),
}

#[derive(Clone, Debug, PartialEq)]
pub struct AbsFilter {
    pub kind: u8,
    pub enabled: bool,
    pub not: bool,
    pub ecu: Option<IdCrit>,
    pub apid: Option<IdCrit>,
    pub ctid: Option<IdCrit>,
    pub vmm: Option<VmmCrit>,
    pub lvl_min: Option<u8>,
    pub lvl_max: Option<u8>,
    pub payload: Option<PayloadCrit>,
    pub ignore_case: bool,
    pub lifecycles: Option<Vec<u32>>,
    /// json: give the xxxIsRegex flags explicitly (otherwise rely on the auto detection)
    pub explicit_regex_flags: bool,
}

impl AbsFilter {
    pub fn new(kind: u8) -> AbsFilter {
        AbsFilter { kind, enabled: true, not: false, ecu: None, apid: None, ctid: None, vmm: None, lvl_min: None, lvl_max: None, payload: None, ignore_case: false, lifecycles: None, explicit_regex_flags: true }
    }
}

/// catalogue of id regexes with an equivalent rust predicate over the 4 raw id bytes (ids are ascii / NUL padded)
pub const ID_REGEX: [&str; 8] = ["^EC", "U1$", "AP|CT", "E.U", "[A-C]", "^ECU1$", "^.B", "C\\x00"];
pub fn id_regex_pred(i: usize, b: &[u8; 4]) -> bool {
    let has = |p: &[u8]| b.windows(p.len()).any(|w| w == p);
    match i {
        0 => b.starts_with(b"EC"),
        1 => b.ends_with(b"U1"),
        2 => has(b"AP") || has(b"CT"),
        3 => (0..2).any(|k| b[k] == b'E' && b[k + 2] == b'U' && b[k + 1] != b'\n'),
        4 => b.iter().any(|c| (b'A'..=b'C').contains(c)),
        5 => b == b"ECU1",
        6 => b[1] == b'B' && b[0] != b'\n',
        _ => has(b"C\x00"),
    }
}
/// the last entry switches the case flag inside the pattern: with ignoreCase the stored regex is "(?i)" + this, and only that added prefix may be
/// taken off again when the filter is serialised
pub const PL_REGEX: [&str; 9] = ["^hello", "World$", "a.c", "[0-9]+", "foo|abc", "l{2}o w", " abc", "o $| a", "(?-i)hello (?i)world"];
pub fn pl_regex_pred(i: usize, t: &str, ignore_case: bool) -> bool {
    if i == 8 {
        // "hello " as written, "world" in any case - whatever the filter's own case flag says
        let b = t.as_bytes();
        return (0..b.len().saturating_sub(10)).any(|p| &b[p..p + 6] == b"hello " && b[p + 6..p + 11].eq_ignore_ascii_case(b"world"));
    }
    let lower;
    let (t, ci) = if ignore_case {
        lower = t.to_ascii_lowercase();
        (lower.as_str(), true)
    } else {
        (t, false)
    };
    let b = t.as_bytes();
    match i {
        0 => t.starts_with("hello"),
        1 => t.ends_with(if ci { "world" } else { "World" }),
        2 => b.windows(3).any(|w| w[0] == b'a' && w[2] == b'c' && w[1] != b'\n'),
        3 => b.iter().any(|c| c.is_ascii_digit()),
        4 => t.contains("foo") || t.contains("abc"),
        5 => t.contains("llo w"),
        6 => t.contains(" abc"),
        _ => t.ends_with("o ") || t.contains(" a"),
    }
}

fn pad4(s: &str) -> [u8; 4] {
    let mut r = [0u8; 4];
    for (i, c) in s.bytes().take(4).enumerate() {
        r[i] = c;
    }
    r
}

fn id_holds(c: &IdCrit, id: &[u8; 4]) -> bool {
    match c {
        IdCrit::Lit(s) => &pad4(s) == id,
        IdCrit::Regex(i) => id_regex_pred(*i, id),
    }
}

/// the specification: enabled and all criteria hold, inverted if negated
pub fn spec_matches(f: &AbsFilter, m: &DltMessage, text: &str) -> bool {
    if !f.enabled {
        return false;
    }
    let mut ok = true;
    if let Some(c) = &f.ecu {
        ok &= id_holds(c, m.ecu.as_buf());
    }
    let ext = m.extended_header.as_ref();
    if let Some(c) = &f.apid {
        ok &= ext.map_or(false, |e| id_holds(c, e.apid.as_buf()));
    }
    if let Some(c) = &f.ctid {
        ok &= ext.map_or(false, |e| id_holds(c, e.ctid.as_buf()));
    }
    if let Some(v) = &f.vmm {
        ok &= ext.map_or(false, |e| match v {
            VmmCrit::Vmm(x) => {
                if x >> 4 == 0 {
                    e.verb_mstp_mtin & 0x0f == *x
                } else {
                    e.verb_mstp_mtin == *x
                }
            }
            VmmCrit::Mstp(s) => (e.verb_mstp_mtin >> 1) & 7 == *s & 7,
        });
    }
    if let Some(l) = f.lvl_min {
        ok &= ext.map_or(false, |e| (e.verb_mstp_mtin >> 1) & 7 == 0 && (e.verb_mstp_mtin >> 4) >= l);
    }
    if let Some(l) = f.lvl_max {
        ok &= ext.map_or(false, |e| (e.verb_mstp_mtin >> 1) & 7 == 0 && (e.verb_mstp_mtin >> 4) <= l);
    }
    if let Some(p) = &f.payload {
        ok &= match p {
            PayloadCrit::Text(s) => {
                if f.ignore_case {
                    text.to_ascii_lowercase().contains(&s.to_ascii_lowercase())
                } else {
                    text.contains(s.as_str())
                }
            }
            PayloadCrit::Regex(i) => pl_regex_pred(*i, text, f.ignore_case),
        };
    }
    if let Some(l) = &f.lifecycles {
        if !l.is_empty() {
            ok &= l.contains(&m.lifecycle);
        }
    }
    ok != f.not
}

// ------------------------------------------------------------------ front ends

pub fn to_json_value(f: &AbsFilter) -> serde_json::Value {
    let mut o = serde_json::Map::new();
    o.insert("type".into(), json!(f.kind));
    if !f.enabled {
        o.insert("enabled".into(), json!(false));
    }
    if f.not {
        o.insert("not".into(), json!(true));
    }
    for (name, c) in [("ecu", &f.ecu), ("apid", &f.apid), ("ctid", &f.ctid)] {
        if let Some(c) = c {
            match c {
                IdCrit::Lit(s) => {
                    o.insert(name.into(), json!(s));
                    if f.explicit_regex_flags {
                        o.insert(format!("{}IsRegex", name), json!(false));
                    }
                }
                IdCrit::Regex(i) => {
                    o.insert(name.into(), json!(ID_REGEX[*i]));
                    if f.explicit_regex_flags {
                        o.insert(format!("{}IsRegex", name), json!(true));
                    }
                }
            }
        }
    }
    match &f.vmm {
        Some(VmmCrit::Vmm(x)) => {
            o.insert("verb_mstp_mtin".into(), json!(x));
        }
        Some(VmmCrit::Mstp(x)) => {
            o.insert("mstp".into(), json!(x));
        }
        None => {}
    }
    if let Some(l) = f.lvl_min {
        o.insert("logLevelMin".into(), json!(l));
    }
    if let Some(l) = f.lvl_max {
        o.insert("logLevelMax".into(), json!(l));
    }
    match &f.payload {
        Some(PayloadCrit::Text(s)) => {
            o.insert("payload".into(), json!(s));
        }
        Some(PayloadCrit::Regex(i)) => {
            o.insert("payloadRegex".into(), json!(PL_REGEX[*i]));
        }
        None => {}
    }
    if f.ignore_case {
        o.insert("ignoreCasePayload".into(), json!(true));
    }
    if let Some(l) = &f.lifecycles {
        o.insert("lifecycles".into(), json!(l));
    }
    serde_json::Value::Object(o)
}

fn xml_escape(s: &str) -> String {
    s.replace('&', "&amp;").replace('<', "&lt;").replace('>', "&gt;")
}

/// can the dlt-viewer dlf format express this filter?
pub fn dlf_expressible(f: &AbsFilter) -> bool {
    !f.not
        && f.lifecycles.is_none()
        && !matches!(f.ecu, Some(IdCrit::Regex(_)))
        && match &f.vmm {
            None => true,
            Some(VmmCrit::Mstp(3)) => true,
            _ => false,
        }
        && match &f.payload {
            Some(PayloadCrit::Text(s)) => !s.is_empty(),
            _ => true,
        }
        && (f.payload.is_some() || !f.ignore_case)
}

pub fn to_dlf_filter(f: &AbsFilter) -> String {
    let mut s = String::from("<filter>");
    s += &format!("<type>{}</type><name>f</name><enablefilter>{}</enablefilter>", f.kind, f.enabled as u8);
    if let Some(IdCrit::Lit(e)) = &f.ecu {
        s += &format!("<enableecuid>1</enableecuid><ecuid>{}</ecuid>", xml_escape(e));
    } else {
        s += "<enableecuid>0</enableecuid><ecuid>XXXX</ecuid>";
    }
    for (en, idn, ren, c) in [("enableapplicationid", "applicationid", "enableregexp_Appid", &f.apid), ("enablecontextid", "contextid", "enableregexp_Context", &f.ctid)] {
        match c {
            Some(IdCrit::Lit(x)) => s += &format!("<{en}>1</{en}><{idn}>{}</{idn}><{ren}>0</{ren}>", xml_escape(x)),
            Some(IdCrit::Regex(i)) => s += &format!("<{en}>1</{en}><{idn}>{}</{idn}><{ren}>1</{ren}>", xml_escape(ID_REGEX[*i])),
            None => s += &format!("<{en}>0</{en}><{idn}>YYYY</{idn}><{ren}>0</{ren}>"),
        }
    }
    s += &format!("<enablecontrolmsgs>{}</enablecontrolmsgs>", f.vmm.is_some() as u8);
    match &f.payload {
        Some(PayloadCrit::Text(t)) => s += &format!("<enablepayloadtext>1</enablepayloadtext><payloadtext>{}</payloadtext><enableregexp_Payload>0</enableregexp_Payload><ignoreCase_Payload>{}</ignoreCase_Payload>", xml_escape(t), f.ignore_case as u8),
        Some(PayloadCrit::Regex(i)) => s += &format!("<enablepayloadtext>1</enablepayloadtext><payloadtext>{}</payloadtext><enableregexp_Payload>1</enableregexp_Payload><ignoreCase_Payload>{}</ignoreCase_Payload>", xml_escape(PL_REGEX[*i]), f.ignore_case as u8),
        None => s += "<enablepayloadtext>0</enablepayloadtext><payloadtext>zzz</payloadtext>",
    }
    match f.lvl_max {
        Some(l) => s += &format!("<enableLogLevelMax>1</enableLogLevelMax><logLevelMax>{}</logLevelMax>", l),
        None => s += "<enableLogLevelMax>0</enableLogLevelMax><logLevelMax>3</logLevelMax>",
    }
    match f.lvl_min {
        Some(l) => s += &format!("<enableLogLevelMin>1</enableLogLevelMin><logLevelMin>{}</logLevelMin>", l),
        None => s += "<enableLogLevelMin>0</enableLogLevelMin><logLevelMin>2</logLevelMin>",
    }
    s += "</filter>";
    s
}

pub fn to_dlf(fs: &[AbsFilter]) -> String {
    let mut s = String::from("<?xml version=\"1.0\" encoding=\"UTF-8\"?><dltfilter>");
    for f in fs {
        s += &to_dlf_filter(f);
    }
    s += "</dltfilter>";
    s
}

/// dlt-convert "APID CTID " format: positive, enabled, apid and ctid both literal without '-'
pub fn convert_expressible(f: &AbsFilter) -> bool {
    let lit_ok = |c: &Option<IdCrit>| matches!(c, Some(IdCrit::Lit(s)) if !s.is_empty() && !s.contains('-') && s.len() <= 4);
    f.kind == 0 && f.enabled && !f.not && f.ecu.is_none() && lit_ok(&f.apid) && lit_ok(&f.ctid) && f.vmm.is_none() && f.lvl_min.is_none() && f.lvl_max.is_none() && f.payload.is_none() && !f.ignore_case && f.lifecycles.is_none()
}
pub fn to_convert_format(f: &AbsFilter) -> String {
    let cell = |c: &Option<IdCrit>| -> String {
        if let Some(IdCrit::Lit(s)) = c {
            let mut x = s.clone();
            while x.len() < 4 {
                x.push('-');
            }
            x
        } else {
            "----".into()
        }
    };
    format!("{} {} ", cell(&f.apid), cell(&f.ctid))
}

// ------------------------------------------------------------------ generators

pub const ECUS: [&[u8; 4]; 8] = [b"ECU1", b"ECU2", b"EC\0\0", b"E\0\0\0", b"ABCD", b"APCT", b"XEBU", b"AU1\0"];
pub const APIDS: [&[u8; 4]; 12] = [b"APID", b"AP\0\0", b"SYS\0", b"ABCD", b"CTAP", b"ECU1", b"B\0\0\0", b"ZZU1", b"A.B\0", b"AxB\0", b"A+B\0", b"AAB\0"];
/// literal ids with regex meta characters: only meaningful with the explicit `...IsRegex: false` flag (the auto detection
/// would read them as regular expressions: A.B also matches AxB, A+B matches AAB)
pub const ID_LITS_META: [&str; 2] = ["A.B", "A+B"];
pub const TEXTS: [&str; 11] = ["", "hello world", "Hello World", "HELLO WORLD 42", "abc", "ABC", "x abc y", "foo bar 123", "a.c", "aXc", "hello WORLD"];
pub const ID_LITS: [&str; 10] = ["ECU1", "ECU2", "EC", "E", "ABCD", "ABCDE", "APCT", "AP", "SYS", "ZZU1"];
/// the entries with blanks at an end tell a front-end that trims the criterion from one that keeps it ("abc" does not contain " abc")
pub const PL_TEXTS: [&str; 11] = ["hello", "Hello", "abc", "a.c", "WORLD", "o w", "42", " abc", "abc ", "hello ", " "];

/// verbose payload with one utf8 string argument
pub fn verbose_string_payload(text: &str, big_endian: bool) -> Vec<u8> {
    let ti: u32 = 0x0000_8200; // STRG | SCOD utf8
    let mut p = Vec::new();
    let len = (text.len() + 1) as u16;
    if big_endian {
        p.extend_from_slice(&ti.to_be_bytes());
        p.extend_from_slice(&len.to_be_bytes());
    } else {
        p.extend_from_slice(&ti.to_le_bytes());
        p.extend_from_slice(&len.to_le_bytes());
    }
    p.extend_from_slice(text.as_bytes());
    p.push(0);
    p
}

pub fn mk_msg(index: u32, ecu: &[u8; 4], ext: Option<(u8, &[u8; 4], &[u8; 4])>, lifecycle: u32, text: &str, via_payload: bool) -> DltMessage {
    let (extended_header, payload, payload_text) = match ext {
        Some((vmm, apid, ctid)) => {
            // the text is delivered through a real verbose payload if the message is verbose, else through payload_text (as plugins do)
            if via_payload && vmm & 1 == 1 {
                (Some(DltExtendedHeader { verb_mstp_mtin: vmm, noar: 1, apid: DltChar4::from_buf(apid), ctid: DltChar4::from_buf(ctid) }), verbose_string_payload(text, false), None)
            } else {
                (Some(DltExtendedHeader { verb_mstp_mtin: vmm, noar: 0, apid: DltChar4::from_buf(apid), ctid: DltChar4::from_buf(ctid) }), index.to_le_bytes().to_vec(), Some(text.to_string()))
            }
        }
        None => (None, index.to_le_bytes().to_vec(), Some(text.to_string())),
    };
    DltMessage {
        index,
        reception_time_us: 1_600_000_000_000_000 + index as u64,
        ecu: DltChar4::from_buf(ecu),
        timestamp_dms: index,
        standard_header: DltStandardHeader { htyp: 0x30 | extended_header.is_some() as u8, mcnt: index as u8, len: 0 },
        extended_header,
        payload,
        payload_text,
        lifecycle,
    }
}

pub fn gen_msg(rng: &mut Rng, index: u32) -> (DltMessage, String) {
    let ecu = *rng.pick(&ECUS);
    let text = *rng.pick(&TEXTS);
    let lc = *rng.pick(&[0u32, 1, 2, 7]);
    let ext = if rng.chance(1, 4) {
        None
    } else {
        let vmm = if rng.chance(1, 2) { rng.next_u8() } else { *rng.pick(&[0x41u8, 0x40, 0x21, 0x31, 0x26, 0x16, 0x61, 0x71, 0x01, 0x23]) };
        Some((vmm, *rng.pick(&APIDS), *rng.pick(&APIDS)))
    };
    (mk_msg(index, ecu, ext, lc, text, rng.chance(1, 2)), text.to_string())
}

fn gen_id_crit(rng: &mut Rng) -> IdCrit {
    gen_id_crit_meta(rng, false)
}
fn gen_id_crit_meta(rng: &mut Rng, allow_meta: bool) -> IdCrit {
    if allow_meta && rng.chance(1, 5) {
        return IdCrit::Lit(rng.pick(&ID_LITS_META).to_string());
    }
    if rng.chance(1, 3) {
        IdCrit::Regex(rng.usize_below(ID_REGEX.len()))
    } else {
        IdCrit::Lit(rng.pick(&ID_LITS).to_string())
    }
}

pub fn gen_filter(rng: &mut Rng, kind: u8) -> AbsFilter {
    let mut f = AbsFilter::new(kind);
    f.enabled = !rng.chance(1, 8);
    f.not = rng.chance(1, 4);
    f.explicit_regex_flags = rng.chance(2, 3);
    // subset of criteria: mostly 1-2
    let dense = rng.chance(1, 6);
    let p = |rng: &mut Rng| if dense { rng.chance(1, 2) } else { rng.chance(1, 5) };
    if p(rng) {
        f.ecu = Some(gen_id_crit(rng));
    }
    if p(rng) {
        f.apid = Some(gen_id_crit_meta(rng, true));
    }
    if p(rng) {
        f.ctid = Some(gen_id_crit_meta(rng, true));
    }
    if [&f.apid, &f.ctid].iter().any(|c| matches!(c, Some(IdCrit::Lit(s)) if ID_LITS_META.contains(&s.as_str()))) {
        f.explicit_regex_flags = true;
    }
    if p(rng) {
        f.vmm = Some(if rng.chance(1, 3) { VmmCrit::Mstp(rng.below(8) as u8) } else { VmmCrit::Vmm(if rng.chance(1, 2) { rng.next_u8() } else { *rng.pick(&[0x41u8, 0x01, 0x06, 0x26, 0x21, 0x00, 0x0e]) }) });
    }
    if p(rng) {
        f.lvl_min = Some(rng.below(7) as u8);
    }
    if p(rng) {
        f.lvl_max = Some(rng.below(7) as u8);
    }
    if p(rng) {
        f.payload = Some(if rng.chance(1, 3) { PayloadCrit::Regex(rng.usize_below(PL_REGEX.len())) } else { PayloadCrit::Text(rng.pick(&PL_TEXTS).to_string()) });
        f.ignore_case = rng.chance(1, 2);
    }
    if p(rng) {
        f.lifecycles = Some(match rng.below(4) {
            0 => vec![],
            1 => vec![1],
            2 => vec![1, 2],
            _ => vec![7, 0],
        });
    }
    if !f.explicit_regex_flags {
        // auto detection: literals must be free of regex chars (ours are), regexes contain some (ours do)
    }
    f
}

// ------------------------------------------------------------------ C11

pub struct FrontEnds {
    pub json: Option<Filter>,
    pub json_roundtrip: Option<Filter>,
    pub dlf: Option<Filter>,
    pub conv: Option<Filter>,
}

pub fn build_front_ends(f: &AbsFilter) -> Result<FrontEnds, (String, String)> {
    let js = to_json_value(f).to_string();
    let json = Filter::from_json(&js).map_err(|e| ("front-end:json-rejected".to_string(), format!("from_json({}) failed: {}", js, e)))?;
    let js2 = json.to_json();
    let json_roundtrip = Filter::from_json(&js2).map_err(|e| ("front-end:to_json-not-loadable".to_string(), format!("from_json(to_json) of {} = {} failed: {}", js, js2, e)))?;
    let dlf = if dlf_expressible(f) {
        let x = to_dlf(&[f.clone()]);
        let v = filters_from_dlf(std::io::Cursor::new(x.as_bytes())).map_err(|e| ("front-end:dlf-rejected".to_string(), format!("filters_from_dlf({}) failed: {:?}", x, e)))?;
        if v.len() != 1 {
            return Err(("front-end:dlf-count".into(), format!("{} filters from one dlf filter", v.len())));
        }
        v.into_iter().next()
    } else {
        None
    };
    let conv = if convert_expressible(f) {
        let x = to_convert_format(f);
        let v = filters_from_convert_format(std::io::Cursor::new(x.as_bytes())).map_err(|e| ("front-end:convert-rejected".to_string(), format!("{}", e)))?;
        if v.len() != 1 {
            return Err(("front-end:convert-count".into(), format!("{} filters from one convert entry '{}'", v.len(), x)));
        }
        v.into_iter().next()
    } else {
        None
    };
    Ok(FrontEnds { json: Some(json), json_roundtrip: Some(json_roundtrip), dlf, conv })
}

fn crit_sig(f: &AbsFilter) -> Vec<u8> {
    let idc = |c: &Option<IdCrit>| match c {
        None => 0u8,
        Some(IdCrit::Lit(_)) => 1,
        Some(IdCrit::Regex(_)) => 2,
    };
    vec![
        f.kind,
        f.enabled as u8,
        f.not as u8,
        idc(&f.ecu),
        idc(&f.apid),
        idc(&f.ctid),
        match &f.vmm {
            None => 0,
            Some(VmmCrit::Vmm(_)) => 1,
            Some(VmmCrit::Mstp(_)) => 2,
        },
        f.lvl_min.is_some() as u8,
        f.lvl_max.is_some() as u8,
        match &f.payload {
            None => 0,
            Some(PayloadCrit::Text(_)) => 1,
            Some(PayloadCrit::Regex(_)) => 2,
        },
        f.ignore_case as u8,
        f.lifecycles.is_some() as u8,
    ]
}

/// evaluate one abstract filter against messages through all front ends
fn eval_filter(rep: &mut Report, f: &AbsFilter, msgs: &[(DltMessage, String)]) {
    let fe = match crate::guard::catch(|| build_front_ends(f)) {
        Err(pi) => {
            rep.violation(&pi.class(), format!("panic at {}:{} {}", pi.file, pi.line, pi.msg), json!({"kind":"c11","filter": to_json_value(f)}));
            return;
        }
        Ok(Err((class, detail))) => {
            rep.violation(&class, detail, json!({"kind":"c11","filter": to_json_value(f)}));
            return;
        }
        Ok(Ok(fe)) => fe,
    };
    let mut both = [false, false];
    let fronts: [(&str, &Option<Filter>); 4] = [("json", &fe.json), ("json-roundtrip", &fe.json_roundtrip), ("dlf", &fe.dlf), ("convert-format", &fe.conv)];
    for (m, text) in msgs {
        let exp = spec_matches(f, m, text);
        both[exp as usize] = true;
        for (name, flt) in fronts.iter() {
            if let Some(flt) = flt {
                rep.inc(&format!("pairs_{}", name));
                let got = match crate::guard::catch(|| flt.matches(m)) {
                    Ok(g) => g,
                    Err(pi) => {
                        rep.violation(&pi.class(), format!("panic at {}:{} {}", pi.file, pi.line, pi.msg), json!({"kind":"c11","filter": to_json_value(f)}));
                        return;
                    }
                };
                if got != exp {
                    // narrow classes by front end and the criterion that is involved
                    let crit = if f.payload.is_some() && f.ecu.is_none() && f.apid.is_none() && f.ctid.is_none() && f.vmm.is_none() { "payload" } else if f.vmm.is_some() { "type" } else { "other" };
                    rep.violation(
                        &format!("decides-differently:{}:{}", name, crit),
                        format!("front end {}: filter {} on message ecu {:?} ext {:?} lc {} text {:?}: got {} expected {}", name, to_json_value(f), m.ecu, m.extended_header, m.lifecycle, text, got, exp),
                        json!({"kind":"c11","filter": to_json_value(f), "front_end": name, "msg": {"ecu": m.ecu.as_buf(), "vmm": m.verb_mstp_mtin(), "apid": m.apid().map(|a| *a.as_buf()), "ctid": m.ctid().map(|a| *a.as_buf()), "lc": m.lifecycle, "text": text}}),
                    );
                    return;
                }
            }
        }
    }
    rep.inc("evaluations");
    if fe.dlf.is_some() && both[0] && both[1] {
        let blank_edged = match &f.payload {
            Some(PayloadCrit::Text(t)) => t.trim() != t,
            Some(PayloadCrit::Regex(i)) => PL_REGEX[*i].trim() != PL_REGEX[*i],
            None => false,
        };
        if blank_edged {
            rep.inc("dlf_filters_with_blank_edged_payload_criterion");
        }
    }
    if both[0] && both[1] {
        rep.inc("nontrivial");
        let mut s = crit_sig(f);
        s.push(fe.dlf.is_some() as u8);
        s.push(fe.conv.is_some() as u8);
        rep.sig(fnv(&s));
    }
}

/// the small universe: single criterion filters x all 256 type bytes x ids
fn sweep_filters() -> Vec<AbsFilter> {
    let mut v = Vec::new();
    let variants = |mut f: AbsFilter, v: &mut Vec<AbsFilter>| {
        for not in [false, true] {
            for enabled in [true, false] {
                f.not = not;
                f.enabled = enabled;
                v.push(f.clone());
            }
        }
    };
    for l in ID_LITS.iter() {
        for which in 0..3 {
            let mut f = AbsFilter::new(0);
            let c = Some(IdCrit::Lit(l.to_string()));
            match which {
                0 => f.ecu = c,
                1 => f.apid = c,
                _ => f.ctid = c,
            }
            variants(f, &mut v);
        }
    }
    for i in 0..ID_REGEX.len() {
        for which in 0..3 {
            let mut f = AbsFilter::new(0);
            let c = Some(IdCrit::Regex(i));
            match which {
                0 => f.ecu = c,
                1 => f.apid = c,
                _ => f.ctid = c,
            }
            variants(f, &mut v);
        }
    }
    for x in 0..=255u8 {
        let mut f = AbsFilter::new(0);
        f.vmm = Some(VmmCrit::Vmm(x));
        variants(f, &mut v);
    }
    for x in 0..8u8 {
        let mut f = AbsFilter::new(0);
        f.vmm = Some(VmmCrit::Mstp(x));
        variants(f, &mut v);
    }
    for l in 0..7u8 {
        let mut f = AbsFilter::new(0);
        f.lvl_min = Some(l);
        variants(f.clone(), &mut v);
        let mut f = AbsFilter::new(0);
        f.lvl_max = Some(l);
        variants(f.clone(), &mut v);
        for l2 in 0..7u8 {
            let mut f = AbsFilter::new(0);
            f.lvl_min = Some(l);
            f.lvl_max = Some(l2);
            variants(f, &mut v);
        }
    }
    for ic in [false, true] {
        for t in PL_TEXTS.iter() {
            let mut f = AbsFilter::new(0);
            f.payload = Some(PayloadCrit::Text(t.to_string()));
            f.ignore_case = ic;
            variants(f, &mut v);
        }
        for i in 0..PL_REGEX.len() {
            let mut f = AbsFilter::new(0);
            f.payload = Some(PayloadCrit::Regex(i));
            f.ignore_case = ic;
            variants(f, &mut v);
        }
    }
    for l in [vec![], vec![1], vec![1, 2], vec![0]] {
        let mut f = AbsFilter::new(0);
        f.lifecycles = Some(l);
        variants(f, &mut v);
    }
    // pairs: apid+ctid literal (the convert format)
    for a in ["APID", "AP", "SYS", "B"] {
        for c in ["APID", "CTAP", "AP", "ZZU1"] {
            let mut f = AbsFilter::new(0);
            f.apid = Some(IdCrit::Lit(a.into()));
            f.ctid = Some(IdCrit::Lit(c.into()));
            variants(f, &mut v);
        }
    }
    v
}

fn sweep_messages(all_vmm: bool) -> Vec<(DltMessage, String)> {
    let mut v = Vec::new();
    let mut idx = 0u32;
    let vmms: Vec<u8> = if all_vmm { (0..=255u8).collect() } else { (0..=255u8).step_by(7).chain([0x41u8, 0x26, 0x16, 0x01, 0x61, 0x71, 0xf1, 0x06]).collect() };
    for ecu in ECUS.iter().take(5) {
        for text in [TEXTS[1], TEXTS[2], TEXTS[6], TEXTS[8], TEXTS[10]] {
            for lc in [0u32, 1, 2] {
                v.push((mk_msg(idx, ecu, None, lc, text, false), text.to_string()));
                idx += 1;
            }
        }
    }
    for vmm in &vmms {
        for (k, apid) in APIDS.iter().enumerate() {
            let ctid = APIDS[(k * 3 + (*vmm as usize)) % APIDS.len()];
            let ecu = ECUS[(k + *vmm as usize) % ECUS.len()];
            let text = TEXTS[(k + *vmm as usize) % TEXTS.len()];
            v.push((mk_msg(idx, ecu, Some((*vmm, apid, ctid)), (k % 3) as u32, text, k % 2 == 0), text.to_string()));
            idx += 1;
        }
    }
    v
}

pub fn run_c11(p: &Params) -> Report {
    let mut rep = Report::new("C11");
    if let Some(path) = &p.replay {
        rep.note(format!("replay file {}: re-run the recorded filter JSON through Filter::from_json by hand; C11 cases are fully described by (filter json, front end, message) in the replay file", path));
        return rep;
    }
    // part 1: the sweep over the small universe (each shard takes its slice of the filters)
    let filters = sweep_filters();
    let msgs = sweep_messages(p.thorough);
    let mut done = 0u64;
    for (k, f) in filters.iter().enumerate() {
        if k as u64 % p.of != p.shard {
            continue;
        }
        eval_filter(&mut rep, f, &msgs);
        done += 1;
    }
    rep.add("sweep_filters", done);
    rep.add("sweep_pairs", done * msgs.len() as u64);
    if p.shard == 0 {
        rep.add("sweep_message_universe", msgs.len() as u64);
        rep.add("sweep_filter_universe", filters.len() as u64);
        if p.thorough {
            rep.add("sweep_all_256_type_bytes", 1);
        }
    }
    // part 2: random subsets of criteria on random messages
    let mut i = 0u64;
    while (p.cases == 0 || i < p.cases) && !p.time_up() {
        let mut rng = Rng::new(p.case_seed(i) ^ 0xC11);
        let kind = rng.below(4) as u8;
        let f = gen_filter(&mut rng, kind);
        let n = 20 + rng.usize_below(60);
        let msgs: Vec<(DltMessage, String)> = (0..n).map(|k| gen_msg(&mut rng, k as u32)).collect();
        eval_filter(&mut rep, &f, &msgs);
        if rep.want_sample() && i > 3 {
            rep.sample(json!({"abstract_filter": to_json_value(&f), "dlf_expressible": dlf_expressible(&f), "convert_format_expressible": convert_expressible(&f), "messages": n}));
        }
        i += 1;
    }
    rep
}

// ------------------------------------------------------------------ C12

fn spec_keep(fs: &[AbsFilter], m: &DltMessage, text: &str, with_events: bool) -> bool {
    let pos: Vec<&AbsFilter> = fs.iter().filter(|f| f.enabled && f.kind == 0).collect();
    let neg: Vec<&AbsFilter> = fs.iter().filter(|f| f.enabled && f.kind == 1).collect();
    let ev: Vec<&AbsFilter> = fs.iter().filter(|f| f.enabled && f.kind == 3).collect();
    let mut keep = pos.is_empty() || pos.iter().any(|f| spec_matches(f, m, text));
    keep &= !neg.iter().any(|f| spec_matches(f, m, text));
    if with_events {
        keep &= ev.is_empty() || ev.iter().any(|f| spec_matches(f, m, text));
    }
    keep
}

pub fn run_c12(p: &Params) -> Report {
    let mut rep = Report::new("C12");
    if p.replay.is_some() {
        rep.note("C12 replay files carry the filter set JSON and the message list; re-run with StreamContext::from / filter_as_streams".into());
        return rep;
    }
    let log = slog::Logger::root(slog::Discard, slog::o!());
    let mut i = 0u64;
    while (p.cases == 0 || i < p.cases) && !p.time_up() {
        let mut rng = Rng::new(p.case_seed(i) ^ 0xC12);
        i += 1;
        let nf = rng.usize_below(9);
        let mut fs: Vec<AbsFilter> = Vec::new();
        for _ in 0..nf {
            let kind = *rng.pick(&[0u8, 0, 0, 1, 1, 2, 3]);
            let mut f = gen_filter(&mut rng, kind);
            if rng.chance(1, 6) && !fs.is_empty() {
                f = rng.pick(&fs).clone(); // duplicates / overlapping
                if rng.chance(1, 2) {
                    f.kind = kind;
                }
            }
            fs.push(f);
        }
        let nmax = if rng.chance(1, 10) { 500 } else { 60 };
        let n = rng.usize_below(nmax);
        let msgs: Vec<(DltMessage, String)> = (0..n).map(|k| gen_msg(&mut rng, k as u32)).collect();
        rep.inc("evaluations");
        rep.add("messages", n as u64);
        let rp = || json!({"kind":"c12","filters": fs.iter().map(to_json_value).collect::<Vec<_>>(), "messages": msgs.iter().map(|(m, t)| json!({"ecu": m.ecu.as_buf(), "vmm": m.verb_mstp_mtin(), "apid": m.apid().map(|a| *a.as_buf()), "ctid": m.ctid().map(|a| *a.as_buf()), "lc": m.lifecycle, "text": t})).collect::<Vec<_>>()});
        // (a) the stream filter used by convert
        let real: Result<Vec<Filter>, _> = fs.iter().map(|f| Filter::from_json(&to_json_value(f).to_string())).collect();
        let real = match real {
            Ok(r) => r,
            Err(e) => {
                rep.violation("front-end:json-rejected", format!("{}", e), rp());
                continue;
            }
        };
        let (tx, rx) = std::sync::mpsc::channel();
        for (m, _) in &msgs {
            tx.send(m.clone()).unwrap();
        }
        drop(tx);
        let out: RefCell<Vec<DltMessage>> = RefCell::new(Vec::new());
        let res = crate::guard::catch(|| {
            filter_as_streams(&real, &rx, &|m| {
                out.borrow_mut().push(m);
                Ok(())
            })
        });
        let out = out.into_inner();
        let exp: Vec<&DltMessage> = msgs.iter().filter(|(m, t)| spec_keep(&fs, m, t, false)).map(|(m, _)| m).collect();
        match res {
            Err(pi) => {
                rep.violation(&pi.class(), format!("panic at {}:{} {}", pi.file, pi.line, pi.msg), rp());
                continue;
            }
            Ok(Err(e)) => {
                rep.violation("stream-filter:error", format!("{}", e), rp());
                continue;
            }
            Ok(Ok((passed, filtered))) => {
                if passed + filtered != n {
                    rep.violation("stream-filter:counts", format!("passed {} + filtered {} != received {}", passed, filtered, n), rp());
                    continue;
                }
                if passed != out.len() {
                    rep.violation("stream-filter:counts", format!("passed {} but {} forwarded", passed, out.len()), rp());
                    continue;
                }
                if out.len() != exp.len() || out.iter().zip(exp.iter()).any(|(a, b)| a != *b) {
                    let first = out.iter().zip(exp.iter()).position(|(a, b)| a != *b).unwrap_or(out.len().min(exp.len()));
                    rep.violation("stream-filter:selection", format!("forwarded {} messages, specification keeps {}; first difference at kept position {}", out.len(), exp.len(), first), rp());
                    continue;
                }
            }
        }
        // (b) the set matcher used by remote streams, built through its front door
        let sjson = json!({"window": [0, 1_000_000], "filters": fs.iter().map(to_json_value).collect::<Vec<_>>()}).to_string();
        let is_stream = rng.chance(1, 2);
        let sc = StreamContext::from(&log, if is_stream { "stream" } else { "query" }, &sjson);
        let mut sc = match sc {
            Ok(s) => s,
            Err(e) => {
                rep.violation("front-end:stream-context-rejected", format!("{}", e), rp());
                continue;
            }
        };
        let exp_ev: Vec<usize> = msgs.iter().enumerate().filter(|(_, (m, t))| spec_keep(&fs, m, t, true)).map(|(k, _)| k).collect();
        let mut bad = None;
        for (k, (m, t)) in msgs.iter().enumerate() {
            let got = match_filters(m, &sc.filters);
            let e = spec_keep(&fs, m, t, true);
            if got != e {
                bad = Some(format!("match_filters on message {}: got {} expected {}", k, got, e));
                break;
            }
            // both implementations agree when no (enabled) event filter exists
            if !fs.iter().any(|f| f.enabled && f.kind == 3) {
                rep.inc("agreement_checks");
            }
        }
        if let Some(d) = bad {
            rep.violation("set-matcher:selection", d, rp());
            continue;
        }
        let all: Vec<DltMessage> = msgs.iter().map(|(m, _)| m.clone()).collect();
        // feed in random batches like the server loop does
        let mut off = 0;
        while off < all.len() {
            let b = 1 + rng.usize_below(all.len() - off);
            let chunk = *rng.pick(&[1usize, 7, 64, 1000]);
            process_stream_new_msgs(&mut sc, off, &all[off..off + b], chunk);
            let processed = sc.all_msgs_last_processed_len;
            if processed <= off {
                bad = Some(format!("no progress at offset {}", off));
                break;
            }
            off = processed;
        }
        if bad.is_none() && sc.filters_active && sc.filtered_msgs != exp_ev {
            bad = Some(format!("filtered_msgs has {} entries, specification {}", sc.filtered_msgs.len(), exp_ev.len()));
        }
        if let Some(d) = bad {
            rep.violation("set-matcher:stream-positions", d, rp());
            continue;
        }
        // (c) the export plugin's front door (every 8th case): exported file = info message + kept messages, in order
        if i % 16 == 0 && !msgs.is_empty() {
            if let Ok(dir) = tempfile::tempdir() {
                let path = dir.path().join("export.dlt");
                let cfg = json!({"name":"Export","exportFileName": path.to_string_lossy(), "filters": fs.iter().map(to_json_value).collect::<Vec<_>>()});
                match crate::guard::catch(|| adlt::plugins::export::ExportPlugin::from_json(cfg.as_object().unwrap()).map_err(|e| e.to_string())) {
                    Ok(Ok(plugin)) => {
                        let (tx, rx) = std::sync::mpsc::channel();
                        for (m, _) in &msgs {
                            tx.send(m.clone()).unwrap();
                        }
                        drop(tx);
                        let forwarded = std::cell::Cell::new(0usize);
                        let r = crate::guard::catch(|| {
                            adlt::plugins::plugins_process_msgs(
                                rx,
                                &|_m| {
                                    forwarded.set(forwarded.get() + 1);
                                    Ok(())
                                },
                                vec![Box::new(plugin)],
                            )
                        });
                        match r {
                            Err(pi) => {
                                rep.violation(&pi.class(), format!("export plugin panicked at {}:{} {}", pi.file, pi.line, pi.msg), rp());
                                continue;
                            }
                            Ok(_plugins) => {
                                drop(_plugins);
                                let bytes = std::fs::read(&path).unwrap_or_default();
                                let mut exp_bytes = Vec::new();
                                let mut nkept = 0;
                                for (m, t) in &msgs {
                                    if spec_keep(&fs, m, t, true) {
                                        m.to_write(&mut exp_bytes).unwrap();
                                        nkept += 1;
                                    }
                                }
                                rep.inc("export_plugin_files_compared");
                                // skip the leading info message(s): the exported messages are the tail of the file
                                let ok = if nkept == 0 { bytes.is_empty() } else { bytes.len() >= exp_bytes.len() && bytes[bytes.len() - exp_bytes.len()..] == exp_bytes[..] };
                                if !ok {
                                    rep.violation("export-plugin:selection", format!("exported file ({} bytes) does not end with the {} kept messages ({} bytes) in order", bytes.len(), nkept, exp_bytes.len()), rp());
                                    continue;
                                }
                                if nkept > 0 {
                                    // and nothing else but the info message precedes them
                                    let head = &bytes[..bytes.len() - exp_bytes.len()];
                                    let n_head = crate::refdlt::decode_all(head, false).map(|v| v.len()).unwrap_or(usize::MAX);
                                    if n_head != 1 {
                                        rep.violation("export-plugin:extra-messages", format!("{} messages precede the kept ones in the exported file (expected the one info message)", n_head), rp());
                                        continue;
                                    }
                                }
                            }
                        }
                    }
                    Ok(Err(e)) => {
                        rep.violation("front-end:export-plugin-rejected", e, rp());
                        continue;
                    }
                    Err(pi) => {
                        rep.violation(&pi.class(), format!("panic at {}:{} {}", pi.file, pi.line, pi.msg), rp());
                        continue;
                    }
                }
            }
        }
        // (d) the export plugin with `lifecyclesToKeep` (every 16th case): on top of the user filters (which may carry a
        // lifecycle criterion themselves) only messages of the named lifecycle are exported
        if i % 16 == 8 {
            export_lifecycles_to_keep_case(&mut rep, &mut rng, i);
        }
        let en_pos = fs.iter().any(|f| f.enabled && f.kind == 0);
        let en_neg = fs.iter().any(|f| f.enabled && f.kind == 1);
        if en_pos && en_neg && !exp.is_empty() && exp.len() < n {
            rep.inc("nontrivial");
            let kinds: Vec<u8> = {
                let mut k: Vec<u8> = fs.iter().map(|f| f.kind * 4 + f.enabled as u8 * 2 + f.not as u8).collect();
                k.sort_unstable();
                k
            };
            rep.sig(fnv(&kinds));
            if rep.want_sample() && fs.len() <= 3 {
                rep.sample(json!({"filters": fs.iter().map(to_json_value).collect::<Vec<_>>(), "messages": n, "kept_by_stream_filter": exp.len(), "kept_by_set_matcher": exp_ev.len()}));
            }
        }
    }
    rep
}

/// Export plugin front door with `lifecyclesToKeep`: lifecycles come from the real detector on a clean scenario (boots well
/// separated), the entry names exactly one of them by ECU and a window 1 us around its final start/end.
/// Specification: exported = (messages of that lifecycle) AND (user filter set keeps the message); in order, after one info message.
fn export_lifecycles_to_keep_case(rep: &mut Report, rng: &mut Rng, case_no: u64) {
    use adlt::plugins::plugin::Plugin;
    let scen = crate::lcgen::gen_clean(rng, false);
    let input = crate::lcgen::to_dlt(&scen, case_no as u32);
    if input.is_empty() {
        return;
    }
    let (lcs_r, lcs_w) = crate::lc::new_table();
    let (tx, rx) = std::sync::mpsc::channel();
    for m in &input {
        tx.send(m.clone()).unwrap();
    }
    drop(tx);
    let detected: std::cell::RefCell<Vec<DltMessage>> = std::cell::RefCell::new(Vec::with_capacity(input.len()));
    let w = match crate::guard::catch(|| {
        adlt::lifecycle::parse_lifecycles_buffered_from_stream(lcs_w, rx, &|m| {
            detected.borrow_mut().push(m);
            Ok(())
        })
    }) {
        Ok(w) => w,
        Err(_) => return, // the detector's behaviour is C05's business
    };
    let msgs = detected.into_inner();
    // final table
    let mut table: Vec<(u32, adlt::dlt::DltChar4, u64, u64, bool)> = vec![];
    if let Some(rr) = lcs_r.read() {
        for (id, b) in &rr {
            if let Some(lc) = b.get_one() {
                table.push((*id, lc.ecu, lc.start_time, lc.end_time(), lc.is_resume()));
            }
        }
    }
    table.sort_by_key(|t| t.0);
    let cands: Vec<&(u32, adlt::dlt::DltChar4, u64, u64, bool)> = table.iter().filter(|t| !t.4 && t.2 > 1).collect();
    if cands.is_empty() {
        drop(w);
        return;
    }
    let target = **rng.pick(&cands);
    // the window must select exactly this lifecycle of its ECU
    let in_window = table.iter().filter(|t| t.1 == target.1 && !t.4 && t.2 >= target.2 - 1 && t.3 <= target.3 + 1).count();
    if in_window != 1 {
        rep.inc("export_lifecycles_to_keep_ambiguous_skipped");
        drop(w);
        return;
    }
    // user filters without payload criteria (the scenario messages carry no text); negative filters often carry a lifecycle criterion
    let all_ids: Vec<u32> = table.iter().map(|t| t.0).collect();
    let nf = rng.usize_below(4);
    let fs: Vec<AbsFilter> = (0..nf)
        .map(|_| {
            let kind = *rng.pick(&[0u8, 1, 1, 3]);
            let mut f = gen_filter(rng, kind);
            f.payload = None;
            f.ignore_case = false;
            f.enabled = !rng.chance(1, 8);
            f.lifecycles = match rng.below(4) {
                0 => None,
                1 => Some(vec![]),
                2 => Some(vec![target.0]),
                _ => Some(all_ids.iter().copied().filter(|_| rng.chance(1, 2)).collect()),
            };
            f
        })
        .collect();
    let dir = match tempfile::tempdir() {
        Ok(d) => d,
        Err(_) => {
            drop(w);
            return;
        }
    };
    let path = dir.path().join("export.dlt");
    let ecu_str = String::from_utf8_lossy(&target.1.as_buf()[..target.1.as_buf().iter().position(|c| *c == 0).unwrap_or(4)]).to_string();
    let cfg = json!({"name":"Export","exportFileName": path.to_string_lossy(), "filters": fs.iter().map(to_json_value).collect::<Vec<_>>(),
        "lifecyclesToKeep":[{"ecu": ecu_str, "startTime": target.2 - 1, "endTime": target.3 + 1}]});
    let rp = || json!({"kind":"c12-export-lifecyclesToKeep","config": cfg, "scenario": crate::lcgen::scenario_json(&scen), "target_lifecycle": target.0});
    let mut plugin = match crate::guard::catch(|| adlt::plugins::export::ExportPlugin::from_json(cfg.as_object().unwrap()).map_err(|e| e.to_string())) {
        Ok(Ok(p)) => p,
        Ok(Err(e)) => {
            rep.violation("front-end:export-plugin-rejected", e, rp());
            drop(w);
            return;
        }
        Err(pi) => {
            rep.violation(&pi.class(), format!("panic at {}:{} {}", pi.file, pi.line, pi.msg), rp());
            drop(w);
            return;
        }
    };
    plugin.set_lifecycle_read_handle(&lcs_r);
    let (tx, rx) = std::sync::mpsc::channel();
    for m in &msgs {
        tx.send(m.clone()).unwrap();
    }
    drop(tx);
    let r = crate::guard::catch(|| adlt::plugins::plugins_process_msgs(rx, &|_m| Ok(()), vec![Box::new(plugin)]));
    drop(w);
    match r {
        Err(pi) => {
            rep.violation(&pi.class(), format!("export plugin panicked at {}:{} {}", pi.file, pi.line, pi.msg), rp());
        }
        Ok(plugins) => {
            drop(plugins);
            let bytes = std::fs::read(&path).unwrap_or_default();
            let mut exp_bytes = Vec::new();
            let mut nkept = 0;
            for m in &msgs {
                if m.lifecycle == target.0 && spec_keep(&fs, m, "", true) {
                    m.to_write(&mut exp_bytes).unwrap();
                    nkept += 1;
                }
            }
            rep.inc("export_lifecycles_to_keep_files_compared");
            rep.add("export_lifecycles_to_keep_messages_kept", nkept);
            let ok = if nkept == 0 { crate::refdlt::decode_all(&bytes, false).map(|v| v.len() <= 1).unwrap_or(false) } else { bytes.len() >= exp_bytes.len() && bytes[bytes.len() - exp_bytes.len()..] == exp_bytes[..] };
            let head_ok = nkept == 0 || crate::refdlt::decode_all(&bytes[..bytes.len().saturating_sub(exp_bytes.len())], false).map(|v| v.len() == 1).unwrap_or(false);
            if !ok || !head_ok {
                let n_file = crate::refdlt::decode_all(&bytes, false).map(|v| v.len()).unwrap_or(usize::MAX);
                rep.violation("export-plugin:lifecyclesToKeep-selection", format!("the exported file holds {} messages (incl. the info message); specification: {} messages of lifecycle {} that the filter set keeps", n_file, nkept, target.0), rp());
            }
        }
    }
}
