//! generators for DLT messages and byte streams (messages separated by garbage)
use crate::refdlt::*;
use crate::rng::Rng;

pub const PAYLOAD_SMALL: [usize; 14] = [0, 0, 1, 2, 3, 4, 5, 9, 10, 11, 16, 20, 255, 256];

#[derive(Clone, Debug)]
pub struct MsgOpts {
    /// storage micros < 10^6
    pub micros_valid: bool,
    /// probability (per 1000) of a near-maximum payload
    pub huge_per_mille: u64,
    /// version field: true -> always 1
    pub version_one: bool,
}
impl Default for MsgOpts {
    fn default() -> Self {
        MsgOpts {
            micros_valid: false,
            huge_per_mille: 10,
            version_one: false,
        }
    }
}

fn id4(rng: &mut Rng) -> [u8; 4] {
    match rng.below(8) {
        0 => [0, 0, 0, 0],
        1 => [0xff, 0xff, 0xff, 0xff],
        2 => *b"ECU1",
        3 => [b'A', b'B', 0, 0],
        4 => {
            let c = rng.range(b'A' as u64, b'Z' as u64) as u8;
            [c, rng.range(b'0' as u64, b'9' as u64) as u8, 0, 0]
        }
        _ => {
            let b = rng.next_u32().to_le_bytes();
            b
        }
    }
}

/// generate a message with the given shape bits (UEH|MSBF|WEID|WSID|WTMS) and payload size
pub fn gen_msg_shape(rng: &mut Rng, serial: bool, shape: u8, payload_len: usize, o: &MsgOpts) -> RefMsg {
    let mut m = RefMsg {
        serial,
        secs: match rng.below(6) {
            0 => 0,
            1 => u32::MAX,
            2 => 1_640_995_200,
            _ => rng.next_u32(),
        },
        micros: if o.micros_valid {
            match rng.below(4) {
                0 => 0,
                1 => 999_999,
                _ => rng.below(1_000_000) as u32,
            }
        } else {
            match rng.below(6) {
                0 => 0,
                1 => u32::MAX,
                2 => 999_999,
                3 => 1_000_000,
                _ => rng.next_u32(),
            }
        },
        storage_ecu: id4(rng),
        msbf: shape & MSBF != 0,
        version: if o.version_one { 1 } else { *rng.pick(&[1u8, 1, 1, 0, 2, 7]) },
        mcnt: *rng.pick(&[0u8, 1, 0x44, 0x4c, 0xff, 0x7f, 0x80, 2]),
        std_ecu: if shape & WEID != 0 { Some(id4(rng)) } else { None },
        session_id: if shape & WSID != 0 {
            Some(*rng.pick(&[0u32, 1, u32::MAX, 0x444c5401, 0x01000000, 0xdeadbeef]))
        } else {
            None
        },
        timestamp: if shape & WTMS != 0 {
            Some(match rng.below(5) {
                0 => 0,
                1 => u32::MAX,
                2 => 1,
                _ => rng.next_u32(),
            })
        } else {
            None
        },
        ext: if shape & UEH != 0 {
            Some(RefExt {
                msin: rng.next_u8(),
                noar: rng.next_u8(),
                apid: id4(rng),
                ctid: id4(rng),
            })
        } else {
            None
        },
        payload: vec![],
    };
    if rng.chance(1, 4) {
        m.mcnt = rng.next_u8();
    }
    let pl = payload_len.min(m.max_payload());
    m.payload = match rng.below(4) {
        0 => vec![0u8; pl],
        1 => {
            // text-like
            (0..pl).map(|i| b"DLTS\x01 abc"[i % 9]).collect()
        }
        _ => rng.bytes(pl),
    };
    m
}

pub fn pick_payload_len(rng: &mut Rng, o: &MsgOpts) -> usize {
    if rng.below(1000) < o.huge_per_mille {
        // near the maximum: the caller clamps to max_payload of the shape
        65535 - rng.below(40) as usize
    } else if rng.chance(1, 10) {
        rng.below(2000) as usize
    } else if rng.chance(1, 2) {
        *rng.pick(&PAYLOAD_SMALL)
    } else {
        rng.below(64) as usize
    }
}

pub fn gen_msg(rng: &mut Rng, serial: bool, o: &MsgOpts) -> RefMsg {
    let shape = rng.below(32) as u8;
    let pl = pick_payload_len(rng, o);
    gen_msg_shape(rng, serial, shape, pl, o)
}

pub const GARBAGE_LENS: [usize; 20] = [
    0, 0, 0, 1, 2, 3, 4, 7, 8, 15, 16, 19, 20, 21, 23, 31, 100, 4095, 4096, 4097,
];

pub fn gen_garbage(rng: &mut Rng, huge_ok: bool) -> Vec<u8> {
    let len = if huge_ok && rng.chance(1, 200) {
        65550 + rng.below(3) as usize
    } else if rng.chance(1, 3) {
        rng.below(40) as usize
    } else {
        let l = *rng.pick(&GARBAGE_LENS);
        if l > 4000 && !rng.chance(1, 10) {
            rng.below(30) as usize
        } else {
            l
        }
    };
    gen_garbage_len(rng, len)
}

pub fn gen_garbage_len(rng: &mut Rng, len: usize) -> Vec<u8> {
    match rng.below(5) {
        0 => vec![0u8; len],
        1 => {
            // marker prefixes
            let pats: [&[u8]; 6] = [b"DLT", b"DL", b"D", b"DLS", b"DLT\x00", b"DLS\x02"];
            let mut v = Vec::with_capacity(len);
            while v.len() < len {
                let p = *rng.pick(&pats);
                for c in p {
                    if v.len() < len {
                        v.push(*c);
                    }
                }
                if rng.chance(1, 2) && v.len() < len {
                    v.push(rng.next_u8());
                }
            }
            v
        }
        2 => {
            // plausible standard headers: htyp with version 1, mcnt, small len
            let mut v = Vec::with_capacity(len);
            while v.len() < len {
                let h = [0x20 | (rng.below(32) as u8), rng.next_u8(), 0, rng.below(64) as u8];
                for c in h {
                    if v.len() < len {
                        v.push(c);
                    }
                }
            }
            v
        }
        _ => rng.bytes(len),
    }
}

#[derive(Clone, Debug)]
pub struct StreamCase {
    pub serial: bool,
    pub bytes: Vec<u8>,
    /// truth, decoded by the reference decoder at the known offsets after the marker repair
    pub msgs: Vec<RefMsg>,
    pub offsets: Vec<usize>,
    /// n+1 garbage run lengths (before msg 0, between, after the last)
    pub garbage: Vec<usize>,
    pub repairs: usize,
}

#[derive(Clone, Debug)]
pub struct StreamOpts {
    pub max_msgs: usize,
    pub msg: MsgOpts,
    pub garbage: bool,
    pub huge_garbage: bool,
    /// force these shapes first (for coverage of all 32 shapes)
    pub force_shapes: Vec<u8>,
}
impl Default for StreamOpts {
    fn default() -> Self {
        StreamOpts {
            max_msgs: 40,
            msg: MsgOpts::default(),
            garbage: true,
            huge_garbage: true,
            force_shapes: vec![],
        }
    }
}

/// assemble messages and garbage runs; remove every marker occurrence that is not a message start
pub fn assemble(rng: &mut Rng, serial: bool, msgs: &[RefMsg], garbage: &[Vec<u8>]) -> StreamCase {
    assert_eq!(garbage.len(), msgs.len() + 1);
    let mut bytes = Vec::new();
    let mut free = Vec::new();
    let mut offsets = Vec::with_capacity(msgs.len());
    for (i, m) in msgs.iter().enumerate() {
        bytes.extend_from_slice(&garbage[i]);
        free.extend(std::iter::repeat(true).take(garbage[i].len()));
        offsets.push(bytes.len());
        m.encode_into(&mut bytes, Some(&mut free));
    }
    bytes.extend_from_slice(&garbage[msgs.len()]);
    free.extend(std::iter::repeat(true).take(garbage[msgs.len()].len()));
    assert_eq!(bytes.len(), free.len());
    // repair
    let mut repairs = 0;
    loop {
        let occ = find_markers(&bytes);
        let bad: Vec<usize> = occ
            .into_iter()
            .filter(|p| {
                !(offsets.binary_search(p).is_ok()
                    && bytes[*p + 2] == if serial { b'S' } else { b'T' })
            })
            .collect();
        if bad.is_empty() {
            break;
        }
        for p in bad {
            // still a marker? (an earlier repair might have fixed it)
            if !(bytes[p] == b'D' && bytes[p + 1] == b'L' && bytes[p + 3] == 1) {
                continue;
            }
            // pick a free byte among the four
            let cands: Vec<usize> = (p..p + 4).filter(|i| free[*i]).collect();
            assert!(!cands.is_empty(), "no free byte to repair marker at {}", p);
            let i = *rng.pick(&cands);
            let old = bytes[i];
            let mut n = rng.next_u8();
            while n == old || n == b'D' || n == b'L' || n == b'T' || n == b'S' || n == 1 {
                n = rng.next_u8();
            }
            bytes[i] = n;
            repairs += 1;
        }
    }
    // truth
    let mut truth = Vec::with_capacity(msgs.len());
    for (i, off) in offsets.iter().enumerate() {
        let (m, c) = decode_one(&bytes[*off..], serial, *off).expect("reference decode of own stream");
        assert_eq!(c, msgs[i].encoded_size());
        truth.push(m);
    }
    StreamCase {
        serial,
        bytes,
        msgs: truth,
        offsets,
        garbage: garbage.iter().map(|g| g.len()).collect(),
        repairs,
    }
}

pub fn gen_stream(rng: &mut Rng, serial: bool, o: &StreamOpts) -> StreamCase {
    let n = if !o.force_shapes.is_empty() {
        o.force_shapes.len()
    } else if rng.chance(1, 20) {
        0
    } else if rng.chance(1, 3) {
        rng.range(1, 3) as usize
    } else {
        rng.range(1, o.max_msgs as u64) as usize
    };
    let mut msgs = Vec::with_capacity(n);
    for i in 0..n {
        if i < o.force_shapes.len() {
            let pl = pick_payload_len(rng, &o.msg);
            msgs.push(gen_msg_shape(rng, serial, o.force_shapes[i], pl, &o.msg));
        } else {
            msgs.push(gen_msg(rng, serial, &o.msg));
        }
    }
    let dense = rng.chance(1, 4); // mostly no garbage
    let garbage: Vec<Vec<u8>> = (0..=n)
        .map(|_| {
            if !o.garbage || (dense && !rng.chance(1, 8)) {
                vec![]
            } else {
                gen_garbage(rng, o.huge_garbage)
            }
        })
        .collect();
    assemble(rng, serial, &msgs, &garbage)
}
