//! websocket client harness for the real `adlt remote` binary (C15, C16)
use adlt::utils::remote_types::BinType;
use std::io::{BufRead, BufReader};
use std::net::TcpStream;
use std::process::{Child, Command, Stdio};
use std::time::{Duration, Instant};
use tungstenite::{Message, WebSocket};

pub struct Server {
    pub child: Child,
    pub port: u16,
    pub stderr_path: std::path::PathBuf,
}

fn free_port() -> u16 {
    let l = std::net::TcpListener::bind(("127.0.0.1", 0)).expect("bind port 0");
    l.local_addr().unwrap().port()
}

impl Server {
    /// spawn `adlt remote -p <port>`; waits for the "listening" line. None = could not start (inconclusive)
    pub fn spawn(bin: &str, dir: &std::path::Path, env: &[(String, String)]) -> Option<Server> {
        for _attempt in 0..5 {
            let port = free_port();
            let stderr_path = dir.join(format!("server_{}.stderr", port));
            let errf = std::fs::File::create(&stderr_path).ok()?;
            let mut cmd = Command::new(bin);
            cmd.arg("remote").arg("-p").arg(port.to_string()).env("TZ", "UTC").env("RUST_BACKTRACE", "0");
            for (k, v) in env {
                cmd.env(k, v);
            }
            cmd.stdout(Stdio::piped()).stderr(errf).stdin(Stdio::null());
            let mut child = cmd.spawn().ok()?;
            let so = child.stdout.take().unwrap();
            let (tx, rx) = std::sync::mpsc::channel();
            std::thread::spawn(move || {
                let br = BufReader::new(so);
                for l in br.lines().map_while(Result::ok) {
                    if l.contains("remote server listening") {
                        let _ = tx.send(());
                    }
                    // keep draining so the server never blocks on stdout
                }
            });
            if rx.recv_timeout(Duration::from_secs(20)).is_ok() {
                return Some(Server { child, port, stderr_path });
            }
            let _ = child.kill();
            let _ = child.wait();
        }
        None
    }
    pub fn alive(&mut self) -> bool {
        matches!(self.child.try_wait(), Ok(None))
    }
    pub fn stderr_panics(&self) -> Vec<String> {
        std::fs::read_to_string(&self.stderr_path).unwrap_or_default().lines().filter(|l| l.contains("panicked at")).map(|l| l.chars().take(300).collect()).collect()
    }
    /// sanitizer reports (ASan / TSan builds of the server): (class, block)
    pub fn stderr_sanitizer_reports(&self) -> Vec<(String, String)> {
        let s = std::fs::read_to_string(&self.stderr_path).unwrap_or_default();
        let mut v = Vec::new();
        for (marker, kind) in [("ERROR: AddressSanitizer", "asan"), ("WARNING: ThreadSanitizer", "tsan")] {
            let mut from = 0;
            while let Some(p) = s[from..].find(marker) {
                let start = from + p;
                let blk: String = s[start..].chars().take(3000).collect();
                // first frame inside the repository: by source path (builds with line tables) or, failing that, by the
                // crate's symbol prefix ("in adlt::remote::process_incoming_text_message::<..>")
                let frame = blk
                    .find("/repo/src/")
                    .map(|q| blk[q + 6..].chars().take_while(|c| !c.is_whitespace() && *c != ':').collect::<String>())
                    .or_else(|| {
                        // ASan: "#0 0x.. in adlt::remote::f::<..> file", TSan: "#0 adlt::remote::f::<..> file:line (adlt+0x..)"
                        blk.lines().filter(|l| l.trim_start().starts_with('#')).find_map(|l| {
                            let tok = l.split_whitespace().find(|t| t.starts_with("adlt::") || t.starts_with("<adlt::"))?;
                            Some(tok.trim_start_matches('<').chars().take_while(|c| c.is_alphanumeric() || *c == ':' || *c == '_').collect::<String>().trim_end_matches(':').to_string())
                        })
                    });
                let head: String = blk.lines().next().unwrap_or("").chars().take(100).collect();
                let class = match &frame {
                    Some(f) => {
                        // "heap-buffer-overflow on address 0x.. at pc .." -> "heap-buffer-overflow"; "data race (pid=..)" -> "data race"
                        let what = head.split(':').nth(2).unwrap_or("").trim();
                        let what = what.split(" on address").next().unwrap_or(what).split(" (pid").next().unwrap_or(what);
                        format!("{}:{}@{}", kind, what.chars().take(50).collect::<String>(), f)
                    }
                    None => format!("{}-note-without-repo-frame", kind),
                };
                v.push((class, blk));
                from = start + marker.len();
                if v.len() > 20 {
                    break;
                }
            }
        }
        v
    }
    pub fn stderr_tail(&self) -> String {
        let s = std::fs::read_to_string(&self.stderr_path).unwrap_or_default();
        s.lines().rev().take(8).collect::<Vec<_>>().into_iter().rev().collect::<Vec<_>>().join(" | ")
    }
    pub fn kill(mut self) {
        let _ = self.child.kill();
        let _ = self.child.wait();
    }
}

#[derive(Debug, Clone)]
pub enum Frame {
    /// a reply: ok:/err:/unknown command
    Reply(String),
    /// "stream:..." text data
    StreamText(String),
    OtherText(String),
    FileInfo(u32),
    /// (id, nr_msgs) of every lifecycle in the update
    Lifecycles(Vec<(u32, u32)>),
    DltMsgs(u32, Vec<RMsg>),
    EacInfo,
    PluginState(Vec<String>),
    StreamInfo { stream_id: u32, nr_stream_msgs: u32, processed: u32, total: u32 },
    Progress,
    Undecodable(usize),
    Closed,
}

#[derive(Debug, Clone, PartialEq)]
pub struct RMsg {
    pub index: u32,
    pub reception_time: u64,
    pub timestamp_dms: u32,
    pub ecu: u32,
    pub apid: u32,
    pub ctid: u32,
    pub lifecycle_id: u32,
    pub htyp: u8,
    pub mcnt: u8,
    pub verb_mstp_mtin: u8,
    pub noar: u8,
    pub text: String,
}

pub struct Client {
    pub ws: WebSocket<TcpStream>,
    pub closed: bool,
    /// largest nr_msgs seen in a FileInfo frame
    pub file_msgs_seen: u32,
    /// latest message count per lifecycle id from the Lifecycles updates (the client's copy of the lifecycle table)
    pub lifecycle_counts: std::collections::HashMap<u32, u32>,
}

impl Client {
    pub fn connect(port: u16) -> Option<Client> {
        for _ in 0..20 {
            if let Ok(stream) = TcpStream::connect(("127.0.0.1", port)) {
                let _ = stream.set_read_timeout(Some(Duration::from_secs(10)));
                let _ = stream.set_nodelay(true);
                if let Ok((ws, _)) = tungstenite::client::client(format!("ws://127.0.0.1:{}/", port), stream) {
                    let _ = ws.get_ref().set_read_timeout(Some(Duration::from_millis(20)));
                    return Some(Client { ws, closed: false, file_msgs_seen: 0, lifecycle_counts: Default::default() });
                }
            }
            std::thread::sleep(Duration::from_millis(100));
        }
        None
    }
    pub fn send(&mut self, text: &str) -> bool {
        self.ws.write_message(Message::Text(text.to_string())).is_ok()
    }
    /// next frame if one arrives within the socket timeout
    pub fn poll(&mut self) -> Option<Frame> {
        if self.closed {
            return Some(Frame::Closed);
        }
        match self.ws.read_message() {
            Ok(Message::Text(t)) => Some(if t.starts_with("ok:") || t.starts_with("err:") || t.starts_with("unknown command") {
                Frame::Reply(t)
            } else if t.starts_with("stream:") {
                Frame::StreamText(t)
            } else {
                Frame::OtherText(t)
            }),
            Ok(Message::Binary(b)) => {
                let f = decode(&b);
                if let Frame::FileInfo(k) = &f {
                    self.file_msgs_seen = self.file_msgs_seen.max(*k);
                }
                if let Frame::Lifecycles(l) = &f {
                    for (id, n) in l {
                        self.lifecycle_counts.insert(*id, *n);
                    }
                }
                Some(f)
            }
            Ok(Message::Close(_)) => {
                self.closed = true;
                Some(Frame::Closed)
            }
            Ok(_) => None,
            Err(tungstenite::Error::Io(e)) if e.kind() == std::io::ErrorKind::WouldBlock || e.kind() == std::io::ErrorKind::TimedOut => None,
            Err(_) => {
                self.closed = true;
                Some(Frame::Closed)
            }
        }
    }
    /// collect frames until a reply arrives (or timeout / closed). returns (reply, frames before it)
    pub fn wait_reply(&mut self, timeout: Duration) -> (Option<String>, Vec<Frame>) {
        let t0 = Instant::now();
        let mut frames = vec![];
        while t0.elapsed() < timeout {
            match self.poll() {
                Some(Frame::Reply(r)) => return (Some(r), frames),
                Some(Frame::Closed) => {
                    frames.push(Frame::Closed);
                    return (None, frames);
                }
                Some(f) => frames.push(f),
                None => {}
            }
        }
        (None, frames)
    }
    /// collect frames for a duration
    pub fn collect(&mut self, d: Duration) -> Vec<Frame> {
        let t0 = Instant::now();
        let mut frames = vec![];
        while t0.elapsed() < d {
            match self.poll() {
                Some(Frame::Closed) => {
                    frames.push(Frame::Closed);
                    break;
                }
                Some(f) => frames.push(f),
                None => {}
            }
        }
        frames
    }
}

pub fn decode(b: &[u8]) -> Frame {
    match bincode::borrow_decode_from_slice::<BinType, _>(b, bincode::config::legacy()) {
        Ok((t, _)) => match t {
            BinType::FileInfo(f) => Frame::FileInfo(f.nr_msgs),
            BinType::Lifecycles(l) => Frame::Lifecycles(l.iter().map(|x| (x.id, x.nr_msgs)).collect()),
            BinType::DltMsgs((id, v)) => Frame::DltMsgs(
                id,
                v.into_iter()
                    .map(|m| RMsg {
                        index: m.index,
                        reception_time: m.reception_time,
                        timestamp_dms: m.timestamp_dms,
                        ecu: m.ecu,
                        apid: m.apid,
                        ctid: m.ctid,
                        lifecycle_id: m.lifecycle_id,
                        htyp: m.htyp,
                        mcnt: m.mcnt,
                        verb_mstp_mtin: m.verb_mstp_mtin,
                        noar: m.noar,
                        text: m.payload_as_text.to_string(),
                    })
                    .collect(),
            ),
            BinType::EacInfo(_) => Frame::EacInfo,
            BinType::PluginState(s) => Frame::PluginState(s),
            BinType::StreamInfo(s) => Frame::StreamInfo { stream_id: s.stream_id, nr_stream_msgs: s.nr_stream_msgs, processed: s.nr_file_msgs_processed, total: s.nr_file_msgs_total },
            BinType::Progress(_) => Frame::Progress,
        },
        Err(_) => Frame::Undecodable(b.len()),
    }
}
