//! lifecycle scenario generator: ECUs with boots, messages with timestamp since boot and
//! reception = boot + timestamp + delay. All times are drawn from threshold-aware sets
//! around the constants of the detector (1 s, 2 s, 10 s, 30 s, 60 s).
use crate::rng::Rng;
use adlt::dlt::{DltChar4, DltExtendedHeader, DltMessage, DltStandardHeader};

pub const US: u64 = 1_000_000;
/// durations in us around the thresholds of the implementation
pub const T_SET: [u64; 22] = [
    100, 1_000, 10_000, 100_000, 900_000, 1_100_000, 1_900_000, 2_100_000, 5_000_000, 9_000_000, 11_000_000, 20_000_000,
    29_000_000, 31_000_000, 59_000_000, 61_000_000, 70_000_000, 120_000_000, 300_000_000, 1_000_000_000, 3_000_000, 500_000,
];

#[derive(Clone, Copy, Debug, PartialEq, Eq)]
pub enum Kind {
    Normal,
    NoTimestamp,
    CtrlRequest,
    CtrlResponseSwVersion,
}

#[derive(Clone, Debug)]
pub struct LcMsg {
    pub ecu: usize,
    /// ground truth boot number (per ecu); usize::MAX if unknown (control requests)
    pub boot: usize,
    pub ts_us: u64,
    pub recv_us: u64,
    pub kind: Kind,
}

#[derive(Clone, Debug)]
pub struct BootTruth {
    pub boot_us: u64,
    pub delay_us: u64,
    pub max_ts_us: u64,
    pub min_ts_us: u64,
    pub n: u32,
}

#[derive(Clone, Debug)]
pub struct Scenario {
    pub mode: u8, // 0 clean, 1 realistic, 2 hostile
    pub n_ecus: usize,
    pub msgs: Vec<LcMsg>,
    /// per ecu per boot (clean mode: exact)
    pub boots: Vec<Vec<BootTruth>>,
    /// clean mode: some consecutive boots overlap in calculated time (the detector cannot separate them)
    pub overlap_class: bool,
    pub index_stride: u32,
}

pub fn ecu_id(i: usize) -> DltChar4 {
    let ids: [&[u8; 4]; 6] = [b"ECU1", b"ECU2", b"E3\0\0", b"ABCD", b"E\0\0\0", b"ECUX"];
    DltChar4::from_buf(ids[i % 6])
}

pub fn t_pick(rng: &mut Rng) -> u64 {
    let t = *rng.pick(&T_SET);
    // jitter a bit (multiples of 100us)
    match rng.below(4) {
        0 => t,
        1 => t + 100 * rng.below(50),
        2 => t.saturating_sub(100 * rng.below(50)).max(100),
        _ => (rng.below(t / 100 + 1) * 100).max(100),
    }
}

/// timestamps (us, multiples of 100) of n messages within a boot of the given duration
fn gen_timestamps(rng: &mut Rng, n: usize, duration: u64, first_zero: bool) -> Vec<u64> {
    let mut v: Vec<u64> = (0..n).map(|_| rng.below(duration / 100 + 1) * 100).collect();
    v.sort_unstable();
    if first_zero && !v.is_empty() {
        v[0] = 0;
    }
    v
}

/// cleanly separated power cycles (C08)
pub fn gen_clean(rng: &mut Rng, allow_overlap: bool) -> Scenario {
    let n_ecus = 1 + rng.usize_below(4);
    let mut per_ecu: Vec<Vec<LcMsg>> = vec![];
    let mut boots_truth = vec![];
    let mut overlap_class = false;
    for e in 0..n_ecus {
        let nb_max = if rng.chance(1, 4) { 8 } else { 3 };
        let n_boots = 1 + rng.usize_below(nb_max);
        let mut wall = 1_600_000_000 * US + rng.below(100_000_000) * US + rng.below(10_000) * 100;
        let mut msgs = Vec::new();
        let mut truth: Vec<BootTruth> = Vec::new();
        let mut prev_last_recv = 0u64;
        for b in 0..n_boots {
            let n = match rng.below(6) {
                0 => 1,
                1 => 2,
                _ => 1 + rng.usize_below(30),
            };
            let duration = t_pick(rng);
            let fz = rng.chance(1, 4);
            let ts = gen_timestamps(rng, n, duration, fz);
            let max_ts = *ts.iter().max().unwrap();
            let min_ts = *ts.iter().min().unwrap();
            let mut delay = match rng.below(4) {
                0 => 0,
                1 => rng.below(50) * 100,
                _ => t_pick(rng).min(70 * US),
            };
            // off time >= 1ms (relative to the real end of the previous boot)
            let off = 1_000 + if rng.chance(1, 3) { rng.below(100) * 100 } else { t_pick(rng) };
            let boot_us = wall + off;
            if b > 0 {
                // stream order and reception order both separate the boots:
                // first reception of this boot must be later than the last reception of the previous one
                let first_recv = boot_us + delay + min_ts;
                if first_recv <= prev_last_recv {
                    delay += prev_last_recv - first_recv + 100 * (1 + rng.below(100));
                }
                let p: &BootTruth = &truth[b - 1];
                if boot_us + delay <= p.boot_us + p.delay_us + p.max_ts_us {
                    if allow_overlap {
                        overlap_class = true;
                    } else {
                        // move the calculated start behind the end of the previous lifecycle
                        delay = p.boot_us + p.delay_us + p.max_ts_us - boot_us + 100 * (1 + rng.below(1000));
                    }
                }
            }
            // arbitrary order within the boot
            let mut order: Vec<usize> = (0..n).collect();
            match rng.below(3) {
                0 => {}
                1 => rng.shuffle(&mut order),
                _ => {
                    // mostly sorted with a few swaps
                    for _ in 0..(n / 4) {
                        let a = rng.usize_below(n);
                        let b2 = rng.usize_below(n);
                        order.swap(a, b2);
                    }
                }
            }
            for k in order {
                msgs.push(LcMsg { ecu: e, boot: b, ts_us: ts[k], recv_us: boot_us + delay + ts[k], kind: Kind::Normal });
            }
            prev_last_recv = boot_us + delay + max_ts;
            truth.push(BootTruth { boot_us, delay_us: delay, max_ts_us: max_ts, min_ts_us: min_ts, n: n as u32 });
            wall = boot_us + duration.max(max_ts);
        }
        per_ecu.push(msgs);
        boots_truth.push(truth);
    }
    let how = rng.below(3) as u8;
    let msgs = interleave(rng, per_ecu, how);
    // 1/8: message indices in steps of 5000..40000, so that the detector's regular refresh (every 100 000 indices)
    // happens while a boot is running
    let index_stride = if rng.chance(1, 8) { *rng.pick(&[5_000u32, 20_000, 40_000]) } else { 1 };
    Scenario { mode: 0, n_ecus, msgs, boots: boots_truth, overlap_class, index_stride }
}

/// merge the per-ecu lists keeping the per-ecu order: 0 = by reception time, 1 = arbitrary, 2 = in blocks
fn interleave(rng: &mut Rng, per_ecu: Vec<Vec<LcMsg>>, how: u8) -> Vec<LcMsg> {
    let total: usize = per_ecu.iter().map(|v| v.len()).sum();
    let mut out = Vec::with_capacity(total);
    let mut idx = vec![0usize; per_ecu.len()];
    let mut block_left = 0usize;
    let mut block_ecu = 0usize;
    while out.len() < total {
        let avail: Vec<usize> = (0..per_ecu.len()).filter(|e| idx[*e] < per_ecu[*e].len()).collect();
        let e = match how {
            0 => *avail.iter().min_by_key(|e| per_ecu[**e][idx[**e]].recv_us).unwrap(),
            1 => *rng.pick(&avail),
            _ => {
                if block_left == 0 || !avail.contains(&block_ecu) {
                    block_ecu = *rng.pick(&avail);
                    block_left = 1 + rng.usize_below(20);
                }
                block_left -= 1;
                block_ecu
            }
        };
        out.push(per_ecu[e][idx[e]].clone());
        idx[e] += 1;
    }
    out
}

/// realistic (mode 1) and hostile (mode 2) scenarios
pub fn gen_scenario(rng: &mut Rng, hostile: bool, max_msgs: usize) -> Scenario {
    let n_ecus = match rng.below(6) {
        0..=2 => 1,
        3 | 4 => 2,
        _ => 3 + rng.usize_below(2),
    };
    let budget = (2 + rng.usize_below(max_msgs)).max(2);
    let mut per_ecu: Vec<Vec<LcMsg>> = vec![];
    let mut boots_truth = vec![];
    for e in 0..n_ecus {
        let n_boots = match rng.below(8) {
            0..=2 => 1,
            3..=5 => 2,
            6 => 3,
            _ => 2 + rng.usize_below(6),
        };
        let mut wall = 1_600_000_000 * US + rng.below(3600) * US + rng.below(10_000) * 100;
        if hostile && rng.chance(1, 30) {
            wall = rng.below(100) * US; // around 1970
        }
        let mut msgs: Vec<LcMsg> = Vec::new();
        let mut truth = Vec::new();
        let per_boot = (budget / n_ecus / n_boots).max(1);
        for b in 0..n_boots {
            let n = 1 + rng.usize_below(2 * per_boot);
            let duration = t_pick(rng);
            let fz = rng.chance(1, 5);
            let ts = gen_timestamps(rng, n, duration, fz);
            let off = match rng.below(5) {
                0 => 100,
                1 => 1_000 + rng.below(1000) * 100,
                _ => t_pick(rng),
            };
            let boot_us = wall + off;
            // delay model: starts at d0, decreases to dmin; bursts released together
            let d0 = match rng.below(5) {
                0 => 0,
                1 => rng.below(20) * 100_000,
                _ => t_pick(rng).min(if hostile { 130 * US } else { 65 * US }),
            };
            let dmin = if rng.chance(1, 2) { 0 } else { rng.below(d0 / 100 + 1) * 100 };
            let decay_msgs = 1 + rng.usize_below(n);
            let mut burst_until = 0u64; // messages with natural reception before this are released at this time
            let mut last_recv = 0u64;
            let resume_at = if rng.chance(1, 4) && n >= 2 { 1 + rng.usize_below(n - 1) } else { usize::MAX };
            let mut shift = 0u64; // suspend/resume: wall clock passes while the timestamp clock stands still
            let mut b_truth = BootTruth { boot_us, delay_us: d0, max_ts_us: 0, min_ts_us: u64::MAX, n: 0 };
            for (k, t) in ts.iter().enumerate() {
                if k == resume_at {
                    shift += match rng.below(4) {
                        0 => 9 * US,
                        1 => 11 * US,
                        2 => 45 * US,
                        _ => t_pick(rng) + 10 * US,
                    };
                }
                let delay = if k >= decay_msgs { dmin } else { d0 - (d0 - dmin) * k as u64 / decay_msgs as u64 };
                let delay = delay / 100 * 100 + if rng.chance(1, 4) { rng.below(30) * 100 } else { 0 };
                let mut recv = boot_us + shift + t + delay;
                if rng.chance(1, 12) {
                    // start a burst: the following messages are held back
                    burst_until = recv + t_pick(rng).min(90 * US);
                }
                if recv < burst_until {
                    recv = burst_until;
                }
                if !hostile && recv < last_recv {
                    recv = last_recv; // a recorder stamps monotonically
                }
                last_recv = recv;
                let mut m = LcMsg { ecu: e, boot: b, ts_us: *t, recv_us: recv, kind: Kind::Normal };
                if hostile {
                    match rng.below(40) {
                        0 => m.kind = Kind::NoTimestamp,
                        1 => m.ts_us = 0,
                        2 => m.ts_us = recv + t_pick(rng), // beyond reception time
                        3 => m.ts_us = u32::MAX as u64 * 100,
                        4 => {
                            m.kind = Kind::CtrlRequest;
                            m.ts_us = rng.below(1000 * US / 100) * 100; // foreign clock
                            m.boot = usize::MAX;
                        }
                        5 => m.recv_us = recv.saturating_sub(t_pick(rng)), // reception going backwards
                        6 => m.kind = Kind::CtrlResponseSwVersion,
                        7 => m.ts_us = (m.ts_us + t_pick(rng)) / 100 * 100, // timestamp jump
                        _ => {}
                    }
                } else if rng.chance(1, 60) {
                    m.kind = Kind::CtrlRequest;
                    m.ts_us = rng.below(1000 * US / 100) * 100;
                    m.boot = usize::MAX;
                } else if rng.chance(1, 80) {
                    m.kind = Kind::CtrlResponseSwVersion;
                }
                if m.ts_us > u32::MAX as u64 * 100 {
                    m.ts_us = u32::MAX as u64 * 100;
                }
                b_truth.n += 1;
                b_truth.max_ts_us = b_truth.max_ts_us.max(m.ts_us);
                b_truth.min_ts_us = b_truth.min_ts_us.min(m.ts_us);
                msgs.push(m);
            }
            truth.push(b_truth);
            wall = boot_us + shift + duration;
            if hostile && rng.chance(1, 10) {
                wall = wall.saturating_sub(t_pick(rng)); // overlapping boots
            }
        }
        per_ecu.push(msgs);
        boots_truth.push(truth);
    }
    let how = if hostile { rng.below(3) as u8 } else { 0 };
    let msgs = interleave(rng, per_ecu, how);
    let index_stride = if rng.chance(1, 10) { 40_000 } else { 1 };
    Scenario { mode: if hostile { 2 } else { 1 }, n_ecus, msgs, boots: boots_truth, overlap_class: false, index_stride }
}

/// targeted: a short second lifecycle that gets confirmed and is merged later into its predecessor
/// and a second ecu keeping other lifecycles buffered (reaches the rarer release/merge paths)
pub fn gen_targeted(rng: &mut Rng) -> Scenario {
    let h = rng.chance(1, 2);
    let mut s = gen_scenario(rng, h, 40);
    // add on ecu 0 a reboot pattern: first message of the new boot has a large delay, a later one a small delay
    let e = 0usize;
    let last = s.msgs.iter().filter(|m| m.ecu == e).map(|m| m.recv_us).max().unwrap_or(1_600_000_000 * US);
    let boot = last + t_pick(rng).min(20 * US);
    let d_big = t_pick(rng).min(90 * US);
    let n = 2 + rng.usize_below(8);
    let b = s.boots[e].len();
    let mut ts = 0u64;
    let mut extra = Vec::new();
    for k in 0..n {
        ts += t_pick(rng).min(30 * US) / 100 * 100;
        let delay = if k == 0 { d_big } else if rng.chance(1, 2) { d_big / 2 } else { rng.below(10) * 100 };
        extra.push(LcMsg { ecu: e, boot: b, ts_us: ts, recv_us: (boot + ts + delay).max(boot + d_big), kind: Kind::Normal });
    }
    s.boots[e].push(BootTruth { boot_us: boot, delay_us: d_big, max_ts_us: ts, min_ts_us: 0, n: n as u32 });
    // other ecus continue in between
    let others: Vec<LcMsg> = s.msgs.iter().filter(|m| m.ecu != e).cloned().collect();
    let mut tail: Vec<LcMsg> = Vec::new();
    if !others.is_empty() {
        for x in extra {
            tail.push(x);
            if rng.chance(1, 2) {
                let mut o = rng.pick(&others).clone();
                o.recv_us = tail.last().unwrap().recv_us + rng.below(2 * US);
                o.ts_us = (o.ts_us + rng.below(100 * US)) / 100 * 100;
                tail.push(o);
            }
        }
    } else {
        tail = extra;
    }
    s.msgs.extend(tail);
    s
}

/// materialise as DltMessages: index = position * stride, unique payload stamp
pub fn to_dlt(s: &Scenario, case_stamp: u32) -> Vec<DltMessage> {
    s.msgs
        .iter()
        .enumerate()
        .map(|(i, m)| {
            let has_ts = m.kind != Kind::NoTimestamp;
            let (ext, payload): (Option<DltExtendedHeader>, Vec<u8>) = match m.kind {
                Kind::CtrlRequest => (
                    Some(DltExtendedHeader { verb_mstp_mtin: (3 << 1) | (1 << 4), noar: 1, apid: DltChar4::from_buf(b"DA1\0"), ctid: DltChar4::from_buf(b"DC1\0") }),
                    vec![0x13, 0, 0, 0],
                ),
                Kind::CtrlResponseSwVersion => {
                    let v = b"SW 1.2.3";
                    let mut p = vec![0x13, 0, 0, 0, 0];
                    p.extend_from_slice(&(v.len() as u32).to_le_bytes());
                    p.extend_from_slice(v);
                    (Some(DltExtendedHeader { verb_mstp_mtin: (3 << 1) | (2 << 4), noar: 1, apid: DltChar4::from_buf(b"DA1\0"), ctid: DltChar4::from_buf(b"DC1\0") }), p)
                }
                _ => {
                    let mut p = Vec::with_capacity(8);
                    p.extend_from_slice(&case_stamp.to_le_bytes());
                    p.extend_from_slice(&(i as u32).to_le_bytes());
                    if i % 3 == 0 {
                        (Some(DltExtendedHeader { verb_mstp_mtin: 0x41, noar: 0, apid: DltChar4::from_buf(b"APP\0"), ctid: DltChar4::from_buf(b"CTX\0") }), p)
                    } else {
                        (None, p)
                    }
                }
            };
            let htyp = 0x20 | if has_ts { 0x10 } else { 0 } | if ext.is_some() { 1 } else { 0 };
            DltMessage {
                index: (i as u32).wrapping_mul(s.index_stride),
                reception_time_us: m.recv_us,
                ecu: ecu_id(m.ecu),
                timestamp_dms: if has_ts { (m.ts_us / 100).min(u32::MAX as u64) as u32 } else { 0 },
                standard_header: DltStandardHeader { htyp, mcnt: i as u8, len: (4 + if has_ts { 4 } else { 0 } + if ext.is_some() { 10 } else { 0 } + payload.len()) as u16 },
                extended_header: ext,
                payload,
                payload_text: None,
                lifecycle: 0,
            }
        })
        .collect()
}

pub fn scenario_json(s: &Scenario) -> serde_json::Value {
    serde_json::json!({
        "mode": s.mode, "n_ecus": s.n_ecus, "index_stride": s.index_stride,
        "msgs": s.msgs.iter().map(|m| serde_json::json!([m.ecu, if m.boot == usize::MAX { -1 } else { m.boot as i64 }, m.ts_us, m.recv_us, match m.kind { Kind::Normal => 0, Kind::NoTimestamp => 1, Kind::CtrlRequest => 2, Kind::CtrlResponseSwVersion => 3 }])).collect::<Vec<_>>(),
        "boots": s.boots.iter().map(|b| b.iter().map(|t| serde_json::json!([t.boot_us, t.delay_us, t.max_ts_us, t.n])).collect::<Vec<_>>()).collect::<Vec<_>>(),
    })
}

pub fn scenario_from_json(v: &serde_json::Value) -> Scenario {
    let msgs = v["msgs"]
        .as_array()
        .map(|a| {
            a.iter()
                .map(|m| LcMsg {
                    ecu: m[0].as_u64().unwrap() as usize,
                    boot: if m[1].as_i64().unwrap() < 0 { usize::MAX } else { m[1].as_i64().unwrap() as usize },
                    ts_us: m[2].as_u64().unwrap(),
                    recv_us: m[3].as_u64().unwrap(),
                    kind: match m[4].as_u64().unwrap() {
                        1 => Kind::NoTimestamp,
                        2 => Kind::CtrlRequest,
                        3 => Kind::CtrlResponseSwVersion,
                        _ => Kind::Normal,
                    },
                })
                .collect()
        })
        .unwrap_or_default();
    let boots = v["boots"]
        .as_array()
        .map(|a| {
            a.iter()
                .map(|b| b.as_array().unwrap().iter().map(|t| BootTruth { boot_us: t[0].as_u64().unwrap(), delay_us: t[1].as_u64().unwrap(), max_ts_us: t[2].as_u64().unwrap(), min_ts_us: 0, n: t[3].as_u64().unwrap() as u32 }).collect())
                .collect()
        })
        .unwrap_or_default();
    Scenario { mode: v["mode"].as_u64().unwrap_or(2) as u8, n_ecus: v["n_ecus"].as_u64().unwrap_or(1) as usize, msgs, boots, overlap_class: false, index_stride: v["index_stride"].as_u64().unwrap_or(1) as u32 }
}
