//! lifecycle monitors: C05 (conservation + assignment), C07 (final table consistency), C08 (clean power cycles)
use crate::guard::PanicInfo;
use crate::lcgen::*;
use crate::report::*;
use crate::rng::*;
use adlt::dlt::DltMessage;
use adlt::lifecycle::{get_sorted_lifecycles_as_vec, parse_lifecycles_buffered_from_stream, Lifecycle, LifecycleId};
use adlt::verif::{snapshot, NR_POINTS, POINT_NAMES};
use serde_json::json;
use std::cell::RefCell;
use std::collections::{BTreeMap, HashMap};

pub type LcsR = evmap::ReadHandle<LifecycleId, Lifecycle, (), std::hash::BuildHasherDefault<nohash_hasher::NoHashHasher<u32>>>;
pub type LcsW = evmap::WriteHandle<LifecycleId, Lifecycle, (), std::hash::BuildHasherDefault<nohash_hasher::NoHashHasher<u32>>>;

pub fn new_table() -> (LcsR, LcsW) {
    evmap::Options::default()
        .with_hasher(nohash_hasher::BuildNoHashHasher::<LifecycleId>::default())
        .construct::<LifecycleId, Lifecycle>()
}

#[derive(Clone, Debug)]
pub struct LcInfo {
    pub id: LifecycleId,
    pub ecu: adlt::dlt::DltChar4,
    pub nr_msgs: u32,
    pub start_time: u64,
    pub end_time: u64,
    pub is_resume: bool,
    pub resume_origin: Option<LifecycleId>,
    pub merged_into: Option<u32>,
}

pub struct LcRun {
    /// delivered messages per pass
    pub out: Vec<Vec<DltMessage>>,
    pub table: Vec<LcInfo>,
    /// ids in listing order, or the panic of the listing
    pub listing: Result<Vec<LifecycleId>, PanicInfo>,
    pub census: [u64; NR_POINTS],
    /// panic of the detector (pass number)
    pub detector_panic: Option<(usize, PanicInfo)>,
}

/// run the detector over one or more passes sharing one table.
pub fn run_detector(passes: &[Vec<DltMessage>], rendezvous: bool) -> LcRun {
    let before = snapshot();
    let (lcs_r, lcs_w) = new_table();
    let mut lcs_w = Some(lcs_w);
    let mut out = Vec::new();
    let mut detector_panic = None;
    for (pi, input) in passes.iter().enumerate() {
        let collected: RefCell<Vec<DltMessage>> = RefCell::new(Vec::with_capacity(input.len()));
        let w = lcs_w.take().unwrap();
        let res = if rendezvous {
            let (tx, rx) = std::sync::mpsc::sync_channel(0);
            let inp = input.clone();
            let prod = std::thread::spawn(move || {
                for m in inp {
                    if tx.send(m).is_err() {
                        break;
                    }
                }
            });
            let r = crate::guard::catch(|| {
                parse_lifecycles_buffered_from_stream(w, rx, &|m| {
                    collected.borrow_mut().push(m);
                    Ok(())
                })
            });
            let _ = prod.join();
            r
        } else {
            let (tx, rx) = std::sync::mpsc::channel();
            for m in input.iter() {
                tx.send(m.clone()).unwrap();
            }
            drop(tx);
            crate::guard::catch(|| {
                parse_lifecycles_buffered_from_stream(w, rx, &|m| {
                    collected.borrow_mut().push(m);
                    Ok(())
                })
            })
        };
        out.push(collected.into_inner());
        match res {
            Ok(w) => lcs_w = Some(w),
            Err(p) => {
                detector_panic = Some((pi, p));
                break;
            }
        }
    }
    let mut table = Vec::new();
    let mut listing = Ok(vec![]);
    if lcs_w.is_some() {
        if let Some(rr) = lcs_r.read() {
            for (id, b) in &rr {
                if let Some(lc) = b.get_one() {
                    table.push(LcInfo {
                        id: *id,
                        ecu: lc.ecu,
                        nr_msgs: lc.nr_msgs,
                        start_time: lc.start_time,
                        end_time: lc.end_time(),
                        is_resume: lc.is_resume(),
                        resume_origin: lc.verif_resume_origin(),
                        merged_into: lc.was_merged(),
                    });
                }
            }
            listing = crate::guard::catch(|| get_sorted_lifecycles_as_vec(&rr).iter().map(|l| l.id()).collect::<Vec<_>>());
        }
    }
    let after = snapshot();
    let mut census = [0u64; NR_POINTS];
    for i in 0..NR_POINTS {
        census[i] = after[i] - before[i];
    }
    drop(lcs_w);
    LcRun { out, table, listing, census, detector_panic }
}

fn add_census(rep: &mut Report, c: &[u64; NR_POINTS]) {
    for i in 0..12 {
        if c[i] > 0 {
            rep.add(&format!("path_{}", POINT_NAMES[i]), c[i]);
        }
    }
}

pub fn gen_case(p: &Params, i: u64, rng: &mut Rng) -> (Scenario, Option<Scenario>) {
    let _ = (p, i);
    let max = if p.thorough && rng.chance(1, 20) { 400 } else { 60 };
    let s = match rng.below(10) {
        0..=2 => gen_scenario(rng, false, max),
        3..=6 => gen_scenario(rng, true, max),
        7 | 8 => gen_targeted(rng),
        _ => gen_clean(rng, true),
    };
    // optional second pass over the same (pre-populated) table
    let s2 = if rng.chance(1, 8) {
        let h = rng.chance(1, 2);
        Some(gen_scenario(rng, h, 30))
    } else {
        None
    };
    (s, s2)
}

fn case_sig(s: &Scenario, run: &LcRun) -> u64 {
    let c = &run.census;
    let merged = c[5] + c[6];
    let depth_bucket = |x: u64| -> u8 {
        match x {
            0 => 0,
            1..=3 => 1,
            4..=15 => 2,
            _ => 3,
        }
    };
    let resumed = run.table.iter().filter(|l| l.is_resume).count();
    fnv(&[
        s.mode,
        s.n_ecus as u8,
        run.table.len().min(20) as u8,
        merged.min(5) as u8,
        c[7].min(3) as u8,
        resumed.min(4) as u8,
        depth_bucket(c[0]),
        depth_bucket(c[1]),
        depth_bucket(c[2]),
        depth_bucket(c[4]),
        (c[3] > 0) as u8,
        c[8].min(6) as u8,
    ])
}

fn replay_json(kind: &str, s: &Scenario, s2: &Option<Scenario>, rendezvous: bool) -> serde_json::Value {
    json!({"kind": kind, "rendezvous": rendezvous, "pass1": scenario_json(s), "pass2": s2.as_ref().map(scenario_json)})
}

// ---------------------------------------------------------------- C05

/// C05 oracle on one run. Returns (class, detail)
pub fn check_c05(passes: &[Vec<DltMessage>], run: &LcRun) -> Option<(String, String)> {
    if let Some((pi, p)) = &run.detector_panic {
        return Some((p.class(), format!("detector panicked in pass {} at {}:{}: {} -> {} of {} messages were delivered", pi, p.file, p.line, p.msg.chars().take(150).collect::<String>(), run.out[*pi].len(), passes[*pi].len())));
    }
    let by_id: HashMap<LifecycleId, &LcInfo> = run.table.iter().map(|l| (l.id, l)).collect();
    for (pi, input) in passes.iter().enumerate() {
        let out = &run.out[pi];
        let n = input.len().min(out.len());
        for k in 0..n {
            let (a, b) = (&input[k], &out[k]);
            if a.index != b.index || a.payload != b.payload {
                // find out what happened to give a useful class
                let pos = out.iter().position(|m| m.index == a.index && m.payload == a.payload);
                let class = match pos {
                    None => "lost",
                    Some(_) => "reordered-or-duplicated",
                };
                return Some((class.into(), format!("pass {} position {}: expected message index {} but got index {}", pi, k, a.index, b.index)));
            }
            let mut bb = b.clone();
            bb.lifecycle = 0;
            if &bb != a {
                return Some(("altered".into(), format!("pass {} position {}: message changed beyond the lifecycle field: {:?} vs {:?}", pi, k, a, b)));
            }
            if b.lifecycle == 0 {
                return Some(("lifecycle-zero".into(), format!("pass {} position {} (index {}): lifecycle id 0", pi, k, b.index)));
            }
            match by_id.get(&b.lifecycle) {
                None => return Some(("lifecycle-unknown".into(), format!("pass {} position {} (index {}): lifecycle {} is not in the final table {:?}", pi, k, b.index, b.lifecycle, run.table.iter().map(|l| l.id).collect::<Vec<_>>()))),
                Some(l) => {
                    if l.ecu != b.ecu {
                        return Some(("lifecycle-foreign-ecu".into(), format!("pass {} position {} (index {}): lifecycle {} belongs to ecu {:?}, message to {:?}", pi, k, b.index, b.lifecycle, l.ecu, b.ecu)));
                    }
                }
            }
        }
        if out.len() < input.len() {
            return Some(("lost".into(), format!("pass {}: {} of {} messages delivered", pi, out.len(), input.len())));
        }
        if out.len() > input.len() {
            return Some(("duplicated".into(), format!("pass {}: {} delivered but only {} received", pi, out.len(), input.len())));
        }
    }
    None
}

pub fn run_c05(p: &Params) -> Report {
    let mut rep = Report::new("C05");
    if let Some(path) = &p.replay {
        replay(path, &mut rep, "c05");
        return rep;
    }
    let mut i = 0u64;
    while (p.cases == 0 || i < p.cases) && !p.time_up() {
        let mut rng = Rng::new(p.case_seed(i));
        let (s, s2) = gen_case(p, i, &mut rng);
        let rendezvous = rng.chance(1, 60);
        i += 1;
        let mut passes = vec![to_dlt(&s, i as u32)];
        if let Some(s2) = &s2 {
            passes.push(to_dlt(s2, i as u32 ^ 0x8000_0000));
        }
        let run = run_detector(&passes, rendezvous);
        rep.inc("evaluations");
        rep.add("messages", passes.iter().map(|v| v.len() as u64).sum());
        add_census(&mut rep, &run.census);
        if rendezvous {
            rep.inc("runs_rendezvous_inflow");
        }
        if s2.is_some() {
            rep.inc("runs_prepopulated_table");
        }
        match check_c05(&passes, &run) {
            Some((class, detail)) => rep.violation(&class, detail, replay_json("c05", &s, &s2, rendezvous)),
            None => {
                let buffered = run.census[0] + run.census[1] + run.census[2] + run.census[4];
                if buffered > 0 && run.table.len() >= 2 {
                    rep.inc("nontrivial");
                    rep.sig(case_sig(&s, &run));
                    if rep.want_sample() && s.msgs.len() <= 12 {
                        rep.sample(json!({"scenario": scenario_json(&s), "delivered_lifecycles": run.out[0].iter().map(|m| m.lifecycle).collect::<Vec<_>>(), "table": run.table.iter().map(|l| json!([l.id, l.nr_msgs, l.start_time, l.end_time])).collect::<Vec<_>>() }));
                    }
                }
            }
        }
    }
    rep
}

// ---------------------------------------------------------------- C07

pub fn check_c07(run: &LcRun) -> Option<(String, String)> {
    if run.detector_panic.is_some() {
        return None; // C05's business; counted by the caller
    }
    let mut hist: BTreeMap<LifecycleId, u64> = BTreeMap::new();
    let mut delivered = 0u64;
    for o in &run.out {
        for m in o {
            *hist.entry(m.lifecycle).or_insert(0) += 1;
            delivered += 1;
        }
    }
    let mut sum = 0u64;
    for l in &run.table {
        if l.nr_msgs == 0 || l.merged_into.is_some() {
            return Some(("merged-lifecycle-listed".into(), format!("lifecycle {} is listed but invalidated (nr_msgs {}, merged into {:?})", l.id, l.nr_msgs, l.merged_into)));
        }
        let h = hist.get(&l.id).copied().unwrap_or(0);
        if h == 0 {
            return Some(("phantom-lifecycle".into(), format!("lifecycle {} (ecu {:?}, nr_msgs {}) is listed but no delivered message carries its id", l.id, l.ecu, l.nr_msgs)));
        }
        if h != l.nr_msgs as u64 {
            return Some(("count-mismatch".into(), format!("lifecycle {} (ecu {:?}) lists {} msgs but {} delivered messages carry its id", l.id, l.ecu, l.nr_msgs, h)));
        }
        sum += l.nr_msgs as u64;
    }
    if sum != delivered {
        return Some(("sum-mismatch".into(), format!("counts add up to {} but {} messages were delivered", sum, delivered)));
    }
    match &run.listing {
        Err(p) => Some((format!("listing-{}", p.class()), format!("listing panicked at {}:{}: {}", p.file, p.line, p.msg))),
        Ok(ids) => {
            let mut a = ids.clone();
            a.sort_unstable();
            let mut b: Vec<LifecycleId> = run.table.iter().map(|l| l.id).collect();
            b.sort_unstable();
            if a != b {
                return Some(("listing-not-permutation".into(), format!("listing {:?} vs table {:?}", ids, b)));
            }
            let pos: HashMap<LifecycleId, usize> = ids.iter().enumerate().map(|(i, id)| (*id, i)).collect();
            let by_id: HashMap<LifecycleId, &LcInfo> = run.table.iter().map(|l| (l.id, l)).collect();
            let mut any_resume = false;
            for l in &run.table {
                if l.is_resume {
                    any_resume = true;
                    if let Some(o) = l.resume_origin {
                        if let Some(po) = pos.get(&o) {
                            if *po > pos[&l.id] {
                                return Some(("listing-resume-before-origin".into(), format!("resumed lifecycle {} is listed before its origin {}: {:?}", l.id, o, ids)));
                            }
                        }
                    }
                }
            }
            if !any_resume {
                for w in ids.windows(2) {
                    if by_id[&w[0]].start_time > by_id[&w[1]].start_time {
                        return Some(("listing-not-sorted".into(), format!("no resume detected but {} (start {}) is listed before {} (start {})", w[0], by_id[&w[0]].start_time, w[1], by_id[&w[1]].start_time)));
                    }
                }
            }
            None
        }
    }
}

/// many lifecycles incl. several resume chains whose start estimates cross (needed to make the std sort notice an inconsistent comparator)
fn gen_many_lifecycles(rng: &mut Rng) -> Scenario {
    let n_ecus = 1 + rng.usize_below(3);
    let mut per = vec![];
    let mut truth = vec![];
    for e in 0..n_ecus {
        let mut msgs = Vec::new();
        let mut wall = 1_600_000_000 * US + rng.below(1000) * US;
        let n_boots = 8 + rng.usize_below(30);
        let mut tr = vec![];
        for b in 0..n_boots {
            let n = 1 + rng.usize_below(4);
            let boot = wall + t_pick_pub(rng);
            let mut ts = rng.below(50) * 100_000;
            let mut shift = 0;
            for k in 0..n {
                ts += rng.below(100) * 100_000;
                if k > 0 && rng.chance(1, 2) {
                    shift += 10 * US + rng.below(60) * US; // suspend
                }
                let delay = if rng.chance(1, 3) { rng.below(40) * US } else { rng.below(10) * 100 };
                msgs.push(LcMsg { ecu: e, boot: b, ts_us: ts, recv_us: boot + shift + ts + delay, kind: Kind::Normal });
            }
            tr.push(BootTruth { boot_us: boot, delay_us: 0, max_ts_us: ts, min_ts_us: 0, n: n as u32 });
            wall = boot + shift + ts;
            if rng.chance(1, 5) {
                wall = wall.saturating_sub(rng.below(100) * US);
            }
        }
        per.push(msgs);
        truth.push(tr);
    }
    let mut all: Vec<LcMsg> = Vec::new();
    // by reception time, stable per ecu
    let mut idx = vec![0usize; n_ecus];
    let total: usize = per.iter().map(|v| v.len()).sum();
    while all.len() < total {
        let e = (0..n_ecus).filter(|e| idx[*e] < per[*e].len()).min_by_key(|e| per[*e][idx[*e]].recv_us).unwrap();
        all.push(per[e][idx[e]].clone());
        idx[e] += 1;
    }
    Scenario { mode: 3, n_ecus, msgs: all, boots: truth, overlap_class: false, index_stride: 1 }
}
fn t_pick_pub(rng: &mut Rng) -> u64 {
    *rng.pick(&T_SET)
}

pub fn run_c07(p: &Params) -> Report {
    let mut rep = Report::new("C07");
    if let Some(path) = &p.replay {
        replay(path, &mut rep, "c07");
        return rep;
    }
    let mut i = 0u64;
    let adlt_bin = p.val("adlt_bin");
    let remote_every: u64 = p.val("remote_every").and_then(|v| v.parse().ok()).unwrap_or(4000);
    let mut remote = RemoteFrontDoor::default();
    if let (Some(bin), 0) = (&adlt_bin, p.shard) {
        let mut rng = Rng::new(p.case_seed(u64::MAX) ^ 0xC07);
        remote.known_finding_witness(&mut rep, &mut rng, bin);
    }
    while (p.cases == 0 || i < p.cases) && !p.time_up() {
        let mut rng = Rng::new(p.case_seed(i) ^ 0xC07);
        let (s, s2) = if rng.chance(1, 12) { (gen_many_lifecycles(&mut rng), None) } else { gen_case(p, i, &mut rng) };
        i += 1;
        if let Some(bin) = &adlt_bin {
            if i % remote_every == 0 {
                // the table a remote client ends up with (the server forwards table updates as deltas by refresh index)
                remote.case(&mut rep, &mut rng, bin, i);
            }
        }
        let mut passes = vec![to_dlt(&s, i as u32)];
        if let Some(s2) = &s2 {
            passes.push(to_dlt(s2, i as u32 ^ 0x8000_0000));
        }
        let run = run_detector(&passes, false);
        rep.inc("evaluations");
        add_census(&mut rep, &run.census);
        if run.detector_panic.is_some() {
            rep.inc("aborted_by_detector_panic");
            continue;
        }
        rep.inc("listings_produced");
        rep.max("max_lifecycles_listed", run.table.len() as u64);
        if run.table.len() >= 21 {
            rep.inc("listings_with_21_or_more_entries");
        }
        match check_c07(&run) {
            Some((class, detail)) => rep.violation(&class, detail, replay_json("c07", &s, &s2, false)),
            None => {
                let merged = run.census[5] + run.census[6];
                let resumed = run.table.iter().filter(|l| l.is_resume).count();
                if merged > 0 || resumed > 0 {
                    rep.inc("nontrivial");
                    rep.sig(fnv(&[s.mode, run.table.len().min(40) as u8, merged.min(6) as u8, resumed.min(8) as u8, run.census[8].min(8) as u8, run.census[7].min(3) as u8, s2.is_some() as u8]));
                    if rep.want_sample() && s.msgs.len() <= 10 {
                        rep.sample(json!({"scenario": scenario_json(&s), "table": run.table.iter().map(|l| json!({"id": l.id, "nr_msgs": l.nr_msgs, "start": l.start_time, "resume_of": l.resume_origin})).collect::<Vec<_>>(), "listing": run.listing.as_ref().ok()}));
                    }
                }
            }
        }
    }
    rep
}

// ---------------------------------------------------------------- C07 through `adlt remote`

/// C07 at the remote front door: after a file has been processed completely the lifecycle table the *client* has
/// (latest update per lifecycle id) must account for every message: the counts add up to the number of messages.
/// The server runs with tiny channel capacities (hook H4) so that the detector blocks in its final flush while the
/// server loop keeps polling the table.
#[derive(Default)]
pub struct RemoteFrontDoor {
    srv: Option<crate::remote::Server>,
    dir: Option<tempfile::TempDir>,
    used: u32,
    force_env: Option<Vec<(String, String)>>,
}
impl RemoteFrontDoor {
    /// the recorded witness of the known finding `remote:client-keeps-lifecycle-that-was-merged-away` (a few attempts:
    /// the server loop has to poll the table between the publication and the merge)
    pub fn known_finding_witness(&mut self, rep: &mut Report, rng: &mut Rng, bin: &str) {
        let path = concat!(env!("CARGO_MANIFEST_DIR"), "/../findings/C07_remote_merged_lifecycle.json");
        let scen = match std::fs::read_to_string(path).ok().and_then(|s| serde_json::from_str::<serde_json::Value>(&s).ok()) {
            Some(v) if v["witness_scenario"].is_object() => scenario_from_json(&v["witness_scenario"]),
            _ => return,
        };
        for attempt in 0..4u64 {
            let before = rep.violation_classes.get("remote:client-keeps-lifecycle-that-was-merged-away").copied().unwrap_or(0);
            // a fresh, slow server for every attempt
            if let Some(s) = self.srv.take() {
                s.kill();
            }
            self.used = 0;
            self.force_env = Some(vec![("ADLT_VERIF_CHAN_CAP".to_string(), "1".to_string()), ("ADLT_VERIF_PAUSE".to_string(), "ParserMsg:1:300".to_string())]);
            self.case_with(rep, rng, bin, 900_000 + attempt, Some(scen.clone()));
            self.force_env = None;
            rep.inc("known_finding_witness_runs");
            if rep.violation_classes.get("remote:client-keeps-lifecycle-that-was-merged-away").copied().unwrap_or(0) > before {
                break;
            }
        }
        if let Some(s) = self.srv.take() {
            s.kill();
        }
        self.used = 0;
    }
    pub fn case(&mut self, rep: &mut Report, rng: &mut Rng, bin: &str, case_no: u64) {
        self.case_with(rep, rng, bin, case_no, None)
    }
    fn case_with(&mut self, rep: &mut Report, rng: &mut Rng, bin: &str, case_no: u64, fixed: Option<Scenario>) {
        use crate::remote::*;
        use std::time::{Duration, Instant};
        if self.dir.is_none() {
            self.dir = tempfile::tempdir().ok();
        }
        let dir = match &self.dir {
            Some(d) => d.path().to_path_buf(),
            None => {
                rep.inc("inconclusive_tempdir");
                return;
            }
        };
        if self.used >= 6 {
            if let Some(s) = self.srv.take() {
                s.kill();
            }
            self.used = 0;
        }
        if self.srv.is_none() {
            let cap = *rng.pick(&["1", "2", "7", "64"]);
            let env = self.force_env.clone().unwrap_or_else(|| vec![("ADLT_VERIF_CHAN_CAP".to_string(), cap.to_string())]);
            self.srv = Server::spawn(bin, &dir, &env);
        }
        let port = match &self.srv {
            Some(s) => s.port,
            None => {
                rep.inc("inconclusive_server_spawn");
                return;
            }
        };
        self.used += 1;
        // a trace where a confirmed lifecycle keeps receiving messages while another one stays buffered until the end
        let hostile = rng.chance(1, 3);
        let scen = match fixed {
            Some(s) => s,
            None => {
                if rng.chance(1, 3) {
                    gen_targeted(rng)
                } else {
                    gen_scenario(rng, hostile, 300)
                }
            }
        };
        let msgs = to_dlt(&scen, case_no as u32);
        if msgs.is_empty() {
            return;
        }
        let mut bytes = Vec::new();
        for m in &msgs {
            let _ = m.to_write(&mut bytes);
        }
        let path = dir.join(format!("c07_{}.dlt", case_no));
        if std::fs::write(&path, &bytes).is_err() {
            rep.inc("inconclusive_tempdir");
            return;
        }
        let n = msgs.len() as u32;
        // what the client has to end up with: the message count of every lifecycle of the (deterministic) final table,
        // except lifecycles that consist of control requests only - the server does not announce those by design
        let reference = run_detector(&[msgs.clone()], false);
        if reference.detector_panic.is_some() {
            return; // C05's business
        }
        let mut expected_counts: Vec<u32> = vec![];
        for l in &reference.table {
            let of_lc: Vec<&DltMessage> = reference.out[0].iter().filter(|m| m.lifecycle == l.id).collect();
            if !of_lc.is_empty() && of_lc.iter().all(|m| m.is_ctrl_request()) {
                continue;
            }
            expected_counts.push(of_lc.len() as u32);
        }
        expected_counts.sort_unstable();
        let expected_sum: u64 = expected_counts.iter().map(|v| *v as u64).sum();
        let mut cl = match Client::connect(port) {
            Some(c) => c,
            None => {
                rep.inc("inconclusive_connect_failed");
                if let Some(s) = self.srv.take() {
                    s.kill();
                }
                return;
            }
        };
        let rp = || json!({"kind":"c07-remote","scenario": scenario_json(&scen), "messages": n});
        cl.send(&format!("open {}", json!({"files":[path.to_string_lossy()]})));
        let (r, _) = cl.wait_reply(Duration::from_secs(30));
        if !r.as_deref().map_or(false, |r| r.starts_with("ok:")) {
            rep.inc("inconclusive_remote_open");
            let _ = std::fs::remove_file(&path);
            return;
        }
        // until the server has announced all messages ...
        let t0 = Instant::now();
        while cl.file_msgs_seen < n && t0.elapsed() < Duration::from_secs(60) {
            let _ = cl.poll();
        }
        if cl.file_msgs_seen < n {
            rep.inc("inconclusive_remote_not_parsed_in_time");
            let _ = std::fs::remove_file(&path);
            return;
        }
        // ... and then until the client's table accounts for all of them (bounded: 10 s of further updates)
        let t1 = Instant::now();
        let mut sum: u64 = cl.lifecycle_counts.values().map(|v| *v as u64).sum();
        let client_counts = |cl: &Client| -> Vec<u32> {
            let mut v: Vec<u32> = cl.lifecycle_counts.values().copied().collect();
            v.sort_unstable();
            v
        };
        while (sum != expected_sum || client_counts(&cl) != expected_counts) && t1.elapsed() < Duration::from_secs(10) {
            let _ = cl.poll();
            sum = cl.lifecycle_counts.values().map(|v| *v as u64).sum();
        }
        rep.inc("remote_tables_checked");
        rep.add("remote_lifecycles_seen", cl.lifecycle_counts.len() as u64);
        if expected_sum != n as u64 {
            rep.inc("remote_tables_with_control_request_only_lifecycles");
        }
        if client_counts(&cl) != expected_counts {
            let mut t: Vec<(u32, u32)> = cl.lifecycle_counts.iter().map(|(k, v)| (*k, *v)).collect();
            t.sort_unstable();
            // two different failures: (a) the client has every lifecycle of the final table with the right count plus
            // lifecycles that were published once and merged away later (the protocol never retracts a lifecycle);
            // (b) a count is stale or missing
            let mut rest = client_counts(&cl);
            let contains_all = expected_counts.iter().all(|e| match rest.iter().position(|c| c == e) {
                Some(p) => {
                    rest.remove(p);
                    true
                }
                None => false,
            });
            let class = if contains_all && !rest.is_empty() { "remote:client-keeps-lifecycle-that-was-merged-away" } else { "remote:client-table-counts-do-not-add-up" };
            rep.violation(class, format!("all {} messages of the file were announced (FileInfo), but 10 s later the lifecycle table received by the client (id, messages) is {:?}; the final table of the detector has the message counts {:?} (lifecycles of control requests only are not announced)", n, t, expected_counts), rp());
            if let Some(s) = self.srv.take() {
                s.kill();
            }
        }
        cl.send("close");
        let _ = cl.wait_reply(Duration::from_secs(30));
        let _ = std::fs::remove_file(&path);
    }
}
impl Drop for RemoteFrontDoor {
    fn drop(&mut self) {
        if let Some(s) = self.srv.take() {
            s.kill();
        }
    }
}

// ---------------------------------------------------------------- C08

pub fn check_c08(s: &Scenario, run: &LcRun) -> Option<(String, String)> {
    if let Some((_, p)) = &run.detector_panic {
        return Some((p.class(), format!("detector panicked at {}:{}", p.file, p.line)));
    }
    let out = &run.out[0];
    if out.len() != s.msgs.len() {
        return Some(("conservation".into(), format!("{} of {} delivered", out.len(), s.msgs.len())));
    }
    // map (ecu, boot) <-> lifecycle id
    let mut fwd: HashMap<(usize, usize), LifecycleId> = HashMap::new();
    let mut bwd: HashMap<LifecycleId, (usize, usize)> = HashMap::new();
    let narrow = |class: &str| -> String {
        if s.overlap_class {
            format!("{}:consecutive-boots-overlap-in-calculated-time", class)
        } else {
            class.to_string()
        }
    };
    for (k, m) in out.iter().enumerate() {
        let t = &s.msgs[k];
        let key = (t.ecu, t.boot);
        match fwd.get(&key) {
            None => {
                fwd.insert(key, m.lifecycle);
            }
            Some(id) => {
                if *id != m.lifecycle {
                    return Some((narrow("boot-split"), format!("ecu {} boot {}: messages assigned to lifecycles {} and {}", t.ecu, t.boot, id, m.lifecycle)));
                }
            }
        }
        match bwd.get(&m.lifecycle) {
            None => {
                bwd.insert(m.lifecycle, key);
            }
            Some(k2) => {
                if *k2 != key {
                    return Some((narrow("boots-merged"), format!("lifecycle {} contains messages of ecu/boot {:?} and {:?}", m.lifecycle, k2, key)));
                }
            }
        }
    }
    let n_boots: usize = s.boots.iter().map(|b| b.len()).sum();
    if run.table.len() != n_boots {
        return Some((narrow("lifecycle-count"), format!("{} lifecycles listed for {} boots", run.table.len(), n_boots)));
    }
    for l in &run.table {
        let key = match bwd.get(&l.id) {
            Some(k) => k,
            None => return Some((narrow("lifecycle-without-boot"), format!("lifecycle {} has no messages", l.id))),
        };
        let b = &s.boots[key.0][key.1];
        if l.start_time != b.boot_us + b.delay_us {
            return Some((narrow("start-time"), format!("lifecycle {} start {} expected boot+delay {}", l.id, l.start_time, b.boot_us + b.delay_us)));
        }
        if l.end_time != b.boot_us + b.delay_us + b.max_ts_us {
            return Some((narrow("end-time"), format!("lifecycle {} end {} expected {}", l.id, l.end_time, b.boot_us + b.delay_us + b.max_ts_us)));
        }
        if l.nr_msgs != b.n {
            return Some((narrow("nr-msgs"), format!("lifecycle {} nr_msgs {} expected {}", l.id, l.nr_msgs, b.n)));
        }
    }
    None
}

pub fn run_c08(p: &Params) -> Report {
    let mut rep = Report::new("C08");
    if let Some(path) = &p.replay {
        replay(path, &mut rep, "c08");
        return rep;
    }
    let mut i = 0u64;
    while (p.cases == 0 || i < p.cases) && !p.time_up() {
        let mut rng = Rng::new(p.case_seed(i) ^ 0xC08);
        let allow_overlap = rng.chance(1, 10);
        let s = gen_clean(&mut rng, allow_overlap);
        i += 1;
        let passes = vec![to_dlt(&s, i as u32)];
        let run = run_detector(&passes, false);
        rep.inc("evaluations");
        add_census(&mut rep, &run.census);
        if s.overlap_class {
            rep.inc("traces_in_overlap_class");
        } else {
            rep.inc("traces_outside_overlap_class");
        }
        match check_c08(&s, &run) {
            Some((class, detail)) => rep.violation(&class, detail, replay_json("c08", &s, &None, false)),
            None => {
                let max_boots = s.boots.iter().map(|b| b.len()).max().unwrap_or(0);
                if max_boots >= 2 {
                    rep.inc("nontrivial");
                    let resumed = run.table.iter().filter(|l| l.is_resume).count();
                    let delays: Vec<u8> = s.boots.iter().flat_map(|b| b.iter().map(|t| (t.delay_us / 10_000_000).min(8) as u8)).take(6).collect();
                    let mut v = vec![s.n_ecus as u8, max_boots as u8, resumed.min(5) as u8, s.overlap_class as u8];
                    v.extend(delays);
                    rep.sig(fnv(&v));
                    rep.add("resume_flagged_lifecycles", resumed as u64);
                    if rep.want_sample() && s.msgs.len() <= 8 {
                        rep.sample(json!({"scenario": scenario_json(&s), "assigned": run.out[0].iter().map(|m| m.lifecycle).collect::<Vec<_>>(), "table": run.table.iter().map(|l| json!({"id": l.id, "start": l.start_time, "end": l.end_time, "nr_msgs": l.nr_msgs, "resume": l.is_resume})).collect::<Vec<_>>()}));
                    }
                }
            }
        }
    }
    rep
}

fn eval_kind(kind: &str, s: &Scenario, s2: &Option<Scenario>, rendezvous: bool) -> Option<(String, String)> {
    let mut passes = vec![to_dlt(s, 1)];
    if let Some(s2) = s2 {
        passes.push(to_dlt(s2, 2));
    }
    let run = run_detector(&passes, rendezvous);
    match kind {
        "c05" => check_c05(&passes, &run),
        "c07" => check_c07(&run),
        _ => {
            let mut s = s.clone();
            for b in &s.boots {
                for w in b.windows(2) {
                    if w[1].boot_us + w[1].delay_us <= w[0].boot_us + w[0].delay_us + w[0].max_ts_us {
                        s.overlap_class = true;
                    }
                }
            }
            check_c08(&s, &run)
        }
    }
}

/// delta debugging over the messages of pass 1 (and dropping pass 2): keeps the violation class
pub fn minimize(kind: &str, s: &Scenario, s2: &Option<Scenario>, class: &str) -> (Scenario, Option<Scenario>) {
    let same = |s: &Scenario, s2: &Option<Scenario>| -> bool { matches!(eval_kind(kind, s, s2, false), Some((c, _)) if c == class) };
    let mut cur = s.clone();
    let mut cur2 = s2.clone();
    if cur2.is_some() && same(&cur, &None) {
        cur2 = None;
    }
    if kind == "c08" {
        return (cur, cur2); // ground truth is tied to the messages
    }
    let mut chunk = (cur.msgs.len() / 2).max(1);
    loop {
        let mut i = 0;
        let mut changed = false;
        while i < cur.msgs.len() {
            let mut t = cur.clone();
            let end = (i + chunk).min(t.msgs.len());
            t.msgs.drain(i..end);
            if !t.msgs.is_empty() && same(&t, &cur2) {
                cur = t;
                changed = true;
            } else {
                i += chunk;
            }
        }
        if chunk == 1 && !changed {
            break;
        }
        if !changed || chunk > 1 {
            chunk = (chunk / 2).max(1);
        }
    }
    // the same for pass 2
    if let Some(mut c2) = cur2.clone() {
        let mut changed = true;
        while changed {
            changed = false;
            let mut i = 0;
            while i < c2.msgs.len() {
                let mut t = c2.clone();
                t.msgs.remove(i);
                if !t.msgs.is_empty() && same(&cur, &Some(t.clone())) {
                    c2 = t;
                    changed = true;
                } else {
                    i += 1;
                }
            }
        }
        cur2 = Some(c2);
    }
    (cur, cur2)
}

pub fn replay(path: &str, rep: &mut Report, kind: &str) {
    let v: serde_json::Value = serde_json::from_str(&std::fs::read_to_string(path).expect("read replay")).expect("parse");
    let want_min = std::env::var("VMON_MINIMIZE").is_ok();
    let vclass = v["class"].as_str().unwrap_or("").to_string();
    let r = if v.get("replay").is_some() { v["replay"].clone() } else { v };
    let s = scenario_from_json(&r["pass1"]);
    let s2 = if r["pass2"].is_null() { None } else { Some(scenario_from_json(&r["pass2"])) };
    if want_min {
        let (m, m2) = minimize(kind, &s, &s2, &vclass);
        let out = replay_json(kind, &m, &m2, false);
        println!("MINIMIZED {} -> {} messages", s.msgs.len(), m.msgs.len());
        println!("{}", serde_json::to_string(&out).unwrap());
        let base = m.msgs.iter().map(|y| y.recv_us).min().unwrap();
        for (i, x) in m.msgs.iter().enumerate() {
            println!("  #{} ecu {} boot {} ts {:.4}s recv {:.4}s kind {:?}", i, x.ecu, x.boot as i64, x.ts_us as f64 / 1e6, (x.recv_us - base) as f64 / 1e6, x.kind);
        }
        if let Some(m2) = &m2 {
            for (i, x) in m2.msgs.iter().enumerate() {
                println!("  pass2 #{} ecu {} boot {} ts {:.4}s recv {:.4}s kind {:?}", i, x.ecu, x.boot as i64, x.ts_us as f64 / 1e6, (x.recv_us as f64 - base as f64) / 1e6, x.kind);
            }
        }
        rep.sample(out);
    }
    let mut passes = vec![to_dlt(&s, 1)];
    if let Some(s2) = &s2 {
        passes.push(to_dlt(s2, 2));
    }
    let run = run_detector(&passes, r["rendezvous"].as_bool().unwrap_or(false));
    rep.inc("evaluations");
    if std::env::var("VMON_TRACE").is_ok() {
        for (pi, o) in run.out.iter().enumerate() {
            for m in o {
                println!("pass {} delivered index {} ecu {:?} lc {}", pi, m.index, m.ecu, m.lifecycle);
            }
        }
        for l in &run.table {
            println!("table {:?}", l);
        }
        println!("listing {:?}", run.listing);
        for i in 0..12 {
            println!("census {} {}", POINT_NAMES[i], run.census[i]);
        }
    }
    let res = match kind {
        "c05" => check_c05(&passes, &run),
        "c07" => check_c07(&run),
        _ => {
            let mut s = s.clone();
            // recompute the overlap class
            for b in &s.boots {
                for w in b.windows(2) {
                    if w[1].boot_us + w[1].delay_us <= w[0].boot_us + w[0].delay_us + w[0].max_ts_us {
                        s.overlap_class = true;
                    }
                }
            }
            check_c08(&s, &run)
        }
    };
    if let Some((class, detail)) = res {
        rep.violation(&class, detail, r.clone());
    }
}
