//! C15 remote server survives any command sequence and always answers
use crate::filt::{gen_filter, to_json_value};
use crate::lcgen::*;
use crate::remote::*;
use crate::report::*;
use crate::rng::*;
use serde_json::json;
use std::collections::BTreeSet;
use std::time::Duration;

#[derive(Clone, Debug)]
pub struct Cmd {
    pub text: String,
    /// the command name the reply has to mention ("" = unknown command notice expected)
    pub name: String,
    pub kind: &'static str,
    pub malformed: bool,
}

pub struct Model {
    pub open: bool,
    pub one_pass: bool,
    pub streams: BTreeSet<u32>,
    pub queries: BTreeSet<u32>,
    pub stale: Vec<u32>,
}

fn write_dlt(path: &std::path::Path, n: usize, rng: &mut Rng) {
    let s = gen_scenario(rng, false, n);
    let mut msgs = to_dlt(&s, 7);
    // verbose string payloads
    for (i, m) in msgs.iter_mut().enumerate() {
        if m.extended_header.is_none() {
            m.extended_header = Some(adlt::dlt::DltExtendedHeader { verb_mstp_mtin: 0x41, noar: 1, apid: adlt::dlt::DltChar4::from_buf(b"APP\0"), ctid: adlt::dlt::DltChar4::from_buf(b"CTX\0") });
            m.standard_header.htyp |= 1;
        }
        if m.extended_header.as_ref().unwrap().verb_mstp_mtin == 0x41 {
            m.payload = crate::filt::verbose_string_payload(&format!("message number {}", i), false);
            m.extended_header.as_mut().unwrap().noar = 1;
        }
    }
    let mut bytes = Vec::new();
    for m in &msgs {
        m.to_write(&mut bytes).unwrap();
    }
    std::fs::write(path, bytes).unwrap();
}

fn write_big_dlt(path: &std::path::Path, n: usize) {
    let mut bytes = Vec::with_capacity(n * 60);
    let mut m = crate::filt::mk_msg(0, b"ECU1", Some((0x41, b"APP\0", b"CTX\0")), 0, "x", true);
    for i in 0..n {
        m.index = i as u32;
        m.reception_time_us = 1_600_000_000_000_000 + i as u64 * 100;
        m.timestamp_dms = i as u32;
        m.standard_header.htyp = 0x31;
        m.to_write(&mut bytes).unwrap();
    }
    std::fs::write(path, bytes).unwrap();
}

struct Ctx {
    small: String,
    big: String,
    zip: String,
    /// files that are named like archives but are not (garbage, truncated zip)
    bad_zip: String,
    cut_zip: String,
    /// an archive whose extraction takes a while (the commands that follow `open` arrive while it is still being extracted)
    big_zip: String,
    repo_zip: String,
}

/// `force`: selector of the command class (scripted session prefixes); 100 = open the slow-to-extract archive
fn gen_cmd(rng: &mut Rng, m: &Model, cx: &Ctx, force: Option<u64>) -> Cmd {
    if force == Some(100) {
        // many archives in one open: every one is extracted into its own temporary directory (hundreds of ms in total)
        // (the repository's own compressed example archive: ~1 ms each; the tiny generated one is extracted too quickly)
        let many = if std::path::Path::new(&cx.repo_zip).exists() { &cx.repo_zip } else { &cx.zip };
        let mut files: Vec<&String> = vec![many; 200 + rng.usize_below(300)];
        files.push(&cx.big_zip);
        return Cmd { text: format!("open {}", json!({"files":files, "sort": rng.chance(1, 4)})), name: "open".into(), kind: "open", malformed: false };
    }
    let any_id = |rng: &mut Rng, m: &Model| -> (String, bool) {
        // valid, stale, foreign and malformed ids
        let live: Vec<u32> = m.streams.iter().chain(m.queries.iter()).copied().collect();
        match rng.below(8) {
            0..=3 if !live.is_empty() => (rng.pick(&live).to_string(), false),
            4 if !m.stale.is_empty() => (rng.pick(&m.stale).to_string(), false),
            5 => ((900_000 + rng.below(1000)).to_string(), false),
            6 => (rng.pick(&["abc", "-1", "", "1.5", "99999999999999999999", "0x10"]).to_string(), true),
            _ => (if live.is_empty() { "1".to_string() } else { rng.pick(&live).to_string() }, false),
        }
    };
    let filters = |rng: &mut Rng| -> serde_json::Value {
        let n = rng.usize_below(3);
        json!((0..n)
            .map(|_| {
                let k = *rng.pick(&[0u8, 1, 3]);
                to_json_value(&gen_filter(rng, k))
            })
            .collect::<Vec<_>>())
    };
    if let Some(code @ 108..=109) = force {
        // two (or three) active plugins with the same name, then a well-formed plugin_cmd for that name: one reply
        let name = if m.open { "FileTransfer" } else { *rng.pick(&["FileTransfer", "Rewrite"]) };
        return match code {
            108 => {
                let one = |rng: &mut Rng| {
                    if name == "Rewrite" {
                        json!({"name":"Rewrite","rewrites":[]})
                    } else {
                        json!({"name":"FileTransfer","allowSave":rng.chance(1, 2),"keepFLDA":true})
                    }
                };
                let plugins: Vec<serde_json::Value> = (0..2 + rng.usize_below(2)).map(|_| one(rng)).collect();
                Cmd { text: format!("open {}", json!({"files":[cx.small], "plugins": plugins})), name: "open".into(), kind: "open-maybe", malformed: false }
            }
            _ => Cmd { text: format!("plugin_cmd {}", json!({"cmd":"save","name":*rng.pick(&["FileTransfer", "Rewrite"]),"params":{"saveAs":"/nonexistent/dir/x"},"cmdCtx":{"save":{"idx":0}}})), name: "plugin_cmd".into(), kind: "plugin_cmd", malformed: true },
        };
    }
    if let Some(code @ 105..=107) = force {
        return match code {
            105 => Cmd { text: "pause".into(), name: "pause".into(), kind: "pause-resume", malformed: false },
            107 => Cmd { text: "resume".into(), name: "resume".into(), kind: "pause-resume", malformed: false },
            _ => {
                let w0 = rng.below(50);
                let w1 = w0 + rng.below(100);
                Cmd { text: format!("query {}", json!({"window":[w0, w1], "filters": filters(rng), "binary": rng.chance(3, 4)})), name: "query".into(), kind: "stream", malformed: false }
            }
        };
    }
    if let Some(code @ 101..=104) = force {
        // well-formed id commands on a live id (scripted prefixes)
        let live: Vec<u32> = m.streams.iter().chain(m.queries.iter()).copied().collect();
        let id = if live.is_empty() { 1 } else { *rng.pick(&live) };
        return match code {
            101 => Cmd { text: format!("stream_binary_search {} time_ms={}", id, 1_600_000_000_000u64 + rng.below(100_000)), name: "stream_binary_search".into(), kind: "binary_search", malformed: false },
            102 => Cmd { text: format!("stream_binary_search {} index={}", id, rng.below(300)), name: "stream_binary_search".into(), kind: "binary_search", malformed: false },
            103 => Cmd { text: format!("stream_search {} {}", id, json!({"start_idx": rng.below(50), "max_results": 1 + rng.below(20), "filters": filters(rng)})), name: "stream_search".into(), kind: "search", malformed: false },
            _ => Cmd { text: format!("stream_change_window {} {},{}", id, rng.below(100), 100 + rng.below(200)), name: "stream_change_window".into(), kind: "change_window", malformed: false },
        };
    }
    match force.unwrap_or_else(|| rng.below(22)) {
        0 | 1 => {
            let f = match rng.below(16) {
                0 | 1 => &cx.big,
                2 | 3 => &cx.zip,
                14 | 15 => &cx.big_zip,
                4 => &cx.bad_zip,
                5 => &cx.cut_zip,
                _ => &cx.small,
            };
            let sort = rng.chance(1, 4);
            if rng.chance(1, 5) {
                // open with plugin configurations (valid, unknown plugin, missing / wrong typed settings, unreadable dirs)
                let mut plugins = vec![];
                for _ in 0..1 + rng.usize_below(3) {
                    plugins.push(match rng.below(12) {
                        0 => json!({"name":"FileTransfer","allowSave":true,"keepFLDA":false}),
                        1 => json!({"name":"FileTransfer","apid":"SYS","ctid":"FILE","allowSave":false,"autoSavePath":"/nonexistent/dir"}),
                        2 => json!({"name":"SomeIp","fibexDir":"/repo/tests/"}),
                        3 => json!({"name":"SomeIp","fibexDir":"/nonexistent/dir"}),
                        4 => json!({"name":"NonVerbose","fibexDir":crate::c19::RICH_FIBEX_DIR}),
                        5 => json!({"name":"CAN","fibexDir":5}),
                        6 => json!({"name":"Rewrite","rewrites":[{"name":"r","filter":{"type":0,"apid":"SYS"},"payloadRegex":"^(?<a>.*)$","rewrite":{}}]}),
                        7 => json!({"name":"Rewrite","rewrites":"x"}),
                        8 => json!({"name":"Muniic","jsonDir":"/repo/tests/muniic"}),
                        9 => json!({"name":"Bogus"}),
                        10 => json!({}),
                        _ => json!("not an object"),
                    });
                }
                return Cmd { text: format!("open {}", json!({"files":[f], "sort": sort, "plugins": plugins})), name: "open".into(), kind: "open-maybe", malformed: false };
            }
            if std::ptr::eq(f, &cx.bad_zip) || std::ptr::eq(f, &cx.cut_zip) {
                // not a readable archive: the server may refuse or open an empty file, but it has to answer
                return Cmd { text: format!("open {}", json!({"files":[f], "sort": sort})), name: "open".into(), kind: "open-maybe", malformed: false };
            }
            if rng.chance(1, 4) {
                // starts paused: nothing is consumed from the pipeline until resume
                Cmd { text: format!("open {}", json!({"files":[f], "sort": sort, "collect": "one_pass_streams"})), name: "open".into(), kind: "open", malformed: false }
            } else {
                Cmd { text: format!("open {}", json!({"files":[f], "sort": sort})), name: "open".into(), kind: "open", malformed: false }
            }
        }
        2 => {
            let t = *rng.pick(&["open", "open {", "open {\"files\":\"x\"}", "open {\"files\":[\"/nonexistent/file.dlt\"]}", "open {}", "open {\"files\":[1,2]}", "open {\"files\":[\"/tmp\"],\"collect\":\"bogus\"}", "open {\"files\":[],\"plugins\":5}"]);
            Cmd { text: t.to_string(), name: "open".into(), kind: "open-bad", malformed: true }
        }
        3 | 4 => Cmd { text: "close".into(), name: "close".into(), kind: "close", malformed: false },
        5 => {
            let c = *rng.pick(&["pause", "resume"]);
            Cmd { text: c.into(), name: c.into(), kind: "pause-resume", malformed: false }
        }
        6 | 7 | 8 => {
            let c = *rng.pick(&["stream", "query"]);
            let w0 = rng.below(50);
            let w1 = w0 + rng.below(100);
            Cmd { text: format!("{} {}", c, json!({"window":[w0, w1], "filters": filters(rng), "binary": rng.chance(3, 4)})), name: c.into(), kind: "stream", malformed: false }
        }
        9 => {
            let c = *rng.pick(&["stream", "query"]);
            let t = *rng.pick(&["", "{", "{\"window\":5}", "{\"window\":[1]}", "{\"filters\":{}}", "{\"filters\":[{\"type\":9}]}", "{\"filters\":[{\"type\":0,\"ecu\":\"(\",\"ecuIsRegex\":true}]}", "[]", "{\"window\":[\"a\",\"b\"]}", "{\"filters\":[{\"type\":0,\"payloadRegex\":\"(\"}]}"]);
            Cmd { text: format!("{} {}", c, t), name: c.into(), kind: "stream-bad", malformed: true }
        }
        10 | 11 => {
            let (id, mal) = any_id(rng, m);
            Cmd { text: format!("stop {}", id), name: "stop".into(), kind: "stop", malformed: mal }
        }
        12 | 13 => {
            let (id, mal) = any_id(rng, m);
            let w = match rng.below(6) {
                0 => "".to_string(),
                1 => "a,b".to_string(),
                2 => "5".to_string(),
                3 => ",".to_string(),
                _ => format!("{},{}", rng.below(100), rng.below(200)),
            };
            let malw = !w.contains(',');
            Cmd { text: format!("stream_change_window {} {}", id, w).trim_end().to_string(), name: "stream_change_window".into(), kind: "change_window", malformed: mal || malw }
        }
        14 | 15 => {
            let (id, mal) = any_id(rng, m);
            let s = match rng.below(6) {
                0 => "".to_string(),
                1 => "foo=1".to_string(),
                2 => "index".to_string(),
                3 => format!("time_ms={}", 1_600_000_000_000u64 + rng.below(100_000)),
                4 => "index=abc".to_string(),
                _ => format!("index={}", rng.below(300)),
            };
            Cmd { text: format!("stream_binary_search {} {}", id, s).trim_end().to_string(), name: "stream_binary_search".into(), kind: "binary_search", malformed: mal || s.is_empty() }
        }
        16 | 17 => {
            let (id, mal) = any_id(rng, m);
            let body = match rng.below(7) {
                0 => "".to_string(),
                1 => "{".to_string(),
                2 => "{\"start_idx\":\"x\"}".to_string(),
                3 => "{\"filters\":5}".to_string(),
                4 => "[]".to_string(),
                _ => json!({"start_idx": rng.below(50), "max_results": 1 + rng.below(20), "filters": filters(rng)}).to_string(),
            };
            let malb = body.is_empty() || body == "{";
            Cmd { text: format!("stream_search {} {}", id, body).trim_end().to_string(), name: "stream_search".into(), kind: "search", malformed: mal || malb }
        }
        18 => {
            let t = match rng.below(5) {
                0 => "plugin_cmd".to_string(),
                1 => "plugin_cmd {".to_string(),
                2 => "plugin_cmd []".to_string(),
                3 => "plugin_cmd {\"cmd\":\"save\"}".to_string(),
                _ => format!("plugin_cmd {}", json!({"cmd":*rng.pick(&["save","bogus",""]),"name":*rng.pick(&["FileTransfer","SomeIp","Rewrite","nope"]),"params":{"saveAs":"/nonexistent/dir/x"},"cmdCtx":{"save":{"idx":rng.below(3)}}})),
            };
            Cmd { text: t, name: "plugin_cmd".into(), kind: "plugin_cmd", malformed: true }
        }
        19 => {
            let t = match rng.below(6) {
                0 => "fs".to_string(),
                1 => "fs {".to_string(),
                2 => "fs 5".to_string(),
                3 => format!("fs {}", json!({"cmd":"stat","path":"/tmp"})),
                4 => {
                    // archive paths: "<archive>!/<path within>" (valid archive, garbage named .zip, truncated zip)
                    let a = *rng.pick(&[&cx.zip, &cx.zip, &cx.bad_zip, &cx.cut_zip]);
                    let within = *rng.pick(&["", "!", "!/", "!/inner", "!/inner/", "!/inner/small.dlt", "!/nonexistent", "!/../x", "!/!/"]);
                    let cmd = *rng.pick(&["readDirectory", "stat", "readFile"]);
                    format!("fs {}", json!({"cmd":cmd,"path":format!("{}{}", a, within)}))
                }
                _ if rng.chance(1, 12) => {
                    // a very large command in one websocket frame (17-20 MiB of padding): the server accepts messages of up to 1 GB
                    let pad = "x".repeat((17 << 20) + rng.usize_below(3 << 20));
                    format!("fs {}", json!({"cmd":"stat","path":"/tmp","padding":pad}))
                }
                _ => format!("fs {}", json!({"cmd":"bogus","path":5})),
            };
            Cmd { text: t, name: "fs".into(), kind: "fs", malformed: false }
        }
        20 => {
            let t = *rng.pick(&["", " ", "bogus", "OPEN {}", "stream_searchx 1", "close now", "\u{0}", "open\t{}"]);
            // "close now" is the close command with parameters: it is a close
            if t == "close now" {
                Cmd { text: t.into(), name: "close".into(), kind: "close", malformed: false }
            } else {
                Cmd { text: t.into(), name: "".into(), kind: "unknown", malformed: true }
            }
        }
        _ => Cmd { text: "close".into(), name: "close".into(), kind: "close", malformed: false },
    }
}

fn extract_id(reply: &str) -> Option<u32> {
    // ok: stream {"id":12, ...   |  ok: stream_change_window 5={"id":13,"window":[..]}
    let p = reply.find("\"id\":")?;
    let rest = &reply[p + 5..];
    let num: String = rest.chars().skip_while(|c| *c == ' ').take_while(|c| c.is_ascii_digit()).collect();
    num.parse().ok()
}

/// run one session. returns Some((class, detail)) on violation
fn session(rng: &mut Rng, srv: &mut Server, cx: &Ctx, rep: &mut Report, history: &mut Vec<String>) -> Option<(String, String)> {
    let mut cl = match Client::connect(srv.port) {
        Some(c) => c,
        None => {
            rep.inc("inconclusive_connect_failed");
            return None;
        }
    };
    let mut m = Model { open: false, one_pass: false, streams: BTreeSet::new(), queries: BTreeSet::new(), stale: vec![] };
    let n = 5 + rng.usize_below(56);
    let mut had_malformed = false;
    let mut had_stateful = false;
    let mut kinds: Vec<&'static str> = vec![];
    let panics_before = srv.stderr_panics().len();
    // 1/6 of the sessions start with a script: open an archive whose extraction takes a while, create a stream at once
    // and use its id in the commands that take one - they all arrive while the archive is still being extracted
    let mut script: std::collections::VecDeque<u64> = std::collections::VecDeque::new();
    if rng.chance(1, 6) {
        script.push_back(100);
        script.push_back(6);
        for _ in 0..2 + rng.usize_below(4) {
            script.push_back(if rng.chance(2, 3) { 101 + rng.below(4) } else { 10 + rng.below(8) });
        }
        rep.inc("sessions_with_commands_during_archive_extraction");
    }
    // 1/8: several queries (and a stream) created while the pipeline is paused end in the same server round after resume
    if script.is_empty() && rng.chance(1, 8) {
        script.push_back(if rng.chance(1, 2) { 0 } else { 100 });
        script.push_back(105); // pause
        for _ in 0..2 + rng.usize_below(3) {
            script.push_back(if rng.chance(3, 4) { 106 } else { 6 }); // query (or stream/query)
        }
        script.push_back(107); // resume
        for _ in 0..1 + rng.usize_below(3) {
            script.push_back(if rng.chance(2, 3) { 101 + rng.below(4) } else { 10 + rng.below(8) });
        }
        rep.inc("sessions_with_queries_created_while_paused");
    }
    // 1/10: several active plugins with the same name and plugin commands for them
    if script.is_empty() && rng.chance(1, 10) {
        script.push_back(108);
        for _ in 0..1 + rng.usize_below(3) {
            script.push_back(if rng.chance(2, 3) { 109 } else { 18 });
        }
        rep.inc("sessions_with_same_named_plugins");
    }
    for _ in 0..n {
        let c = gen_cmd(rng, &m, cx, script.pop_front());
        history.push(c.text.chars().take(200).collect());
        rep.inc("commands");
        rep.inc(&format!("cmd_{}{}", c.kind, if c.malformed { "_malformed" } else { "" }));
        kinds.push(c.kind);
        had_malformed |= c.malformed;
        if !cl.send(&c.text) {
            return Some(("connection-lost".into(), format!("sending '{}' failed: connection lost. server stderr: {}", c.text.chars().take(80).collect::<String>(), srv.stderr_tail())));
        }
        let closing_during_parse = c.kind == "close" && m.open;
        let (reply, before) = cl.wait_reply(Duration::from_secs(60));
        // queries end asynchronously: an empty DltMsgs(id, []) retires the id
        for f in &before {
            if let Frame::DltMsgs(id, v) = f {
                if v.is_empty() && m.queries.remove(id) {
                    m.stale.push(*id);
                }
            }
        }
        if std::env::var("VMON_C15_TRACE").is_ok() {
            eprintln!("TRACE {} -> {:?} ({} frames before)", c.text.chars().take(90).collect::<String>(), reply.as_ref().map(|r| r.chars().take(80).collect::<String>()), before.len());
        }
        let reply = match reply {
            Some(r) => r,
            None => {
                let closed = before.iter().any(|f| matches!(f, Frame::Closed));
                let p = srv.stderr_panics();
                let class = if p.len() > panics_before {
                    // narrow: which panic
                    let site = p.last().unwrap();
                    if site.contains("remote.rs") && c.kind == "search" && !c.text.trim_end().contains(' ') || (c.kind == "search" && c.text.split(' ').count() == 2) {
                        "no-reply:panic:stream_search-without-body".to_string()
                    } else {
                        format!("no-reply:panic:{}", c.kind)
                    }
                } else if closed {
                    format!("no-reply:connection-closed:{}", c.kind)
                } else {
                    format!("no-reply:timeout:{}", c.kind)
                };
                return Some((class, format!("no reply to '{}' within 60 s (connection closed: {}); server alive: {}; stderr: {}", c.text.chars().take(120).collect::<String>(), closed, srv.alive(), srv.stderr_tail())));
            }
        };
        rep.inc("replies");
        let ok = reply.starts_with("ok:");
        let err = reply.starts_with("err:");
        // names the command
        if c.name.is_empty() {
            if !reply.starts_with("unknown command") {
                return Some(("reply-kind".into(), format!("'{}' answered with '{}' instead of the unknown-command notice", c.text, reply.chars().take(100).collect::<String>())));
            }
        } else if !(ok || err) || !reply.contains(c.name.as_str()) {
            return Some(("reply-names-other-command".into(), format!("command '{}' answered with '{}'", c.text.chars().take(100).collect::<String>(), reply.chars().take(120).collect::<String>())));
        }
        // model
        match c.kind {
            "open" => {
                had_stateful = true;
                if m.open {
                    if ok {
                        return Some(("state:open-while-open-accepted".into(), reply));
                    }
                } else if ok {
                    m.open = true;
                    m.one_pass = c.text.contains("one_pass_streams");
                } else {
                    return Some(("state:valid-open-rejected".into(), format!("'{}' -> '{}'", c.text, reply.chars().take(200).collect::<String>())));
                }
            }
            "open-maybe" => {
                // acceptance is not determined by the property (hostile plugin settings, unreadable archive): the model follows the reply
                had_stateful = true;
                if m.open {
                    if ok {
                        return Some(("state:open-while-open-accepted".into(), reply));
                    }
                } else if ok {
                    m.open = true;
                    m.one_pass = false;
                }
            }
            "open-bad" => {
                if ok && !m.open {
                    // e.g. a directory without dlt files must not open
                    return Some(("state:invalid-open-accepted".into(), format!("'{}' -> '{}'", c.text, reply)));
                }
                if ok && m.open {
                    return Some(("state:open-while-open-accepted".into(), reply));
                }
            }
            "close" => {
                had_stateful = true;
                if m.open {
                    if !ok {
                        return Some(("state:close-failed".into(), format!("close while open -> '{}'", reply)));
                    }
                    if closing_during_parse {
                        rep.inc("closes_while_file_open");
                    }
                    m.open = false;
                    let mut all: Vec<u32> = m.streams.iter().chain(m.queries.iter()).copied().collect();
                    m.stale.append(&mut all);
                    m.streams.clear();
                    m.queries.clear();
                } else if ok {
                    return Some(("state:close-while-closed-accepted".into(), reply));
                }
            }
            "pause-resume" => {
                if ok != m.open {
                    return Some(("state:pause-resume".into(), format!("file open={} but '{}' -> '{}'", m.open, c.text, reply)));
                }
            }
            "stream" => {
                had_stateful = true;
                if !m.open && ok {
                    return Some(("state:stream-without-file".into(), reply));
                }
                if m.open && ok {
                    match extract_id(&reply) {
                        Some(id) => {
                            if c.name == "stream" {
                                m.streams.insert(id);
                            } else {
                                m.queries.insert(id);
                            }
                        }
                        None => return Some(("reply-without-id".into(), reply)),
                    }
                }
                if m.open && !m.one_pass && err && c.text.contains("\"filters\":[]") {
                    return Some(("state:valid-stream-rejected".into(), format!("'{}' -> '{}'", c.text, reply)));
                }
            }
            "stream-bad" => {
                if ok && !m.open {
                    return Some(("state:stream-without-file".into(), reply));
                }
                if ok {
                    // some "bad" bodies are accepted by design (defaults): track the id
                    if let Some(id) = extract_id(&reply) {
                        if c.name == "stream" {
                            m.streams.insert(id);
                        } else {
                            m.queries.insert(id);
                        }
                    }
                }
            }
            "stop" | "change_window" | "binary_search" | "search" => {
                let idtxt = c.text.split(' ').nth(1).unwrap_or("");
                let id: Option<u32> = idtxt.parse().ok();
                let live_stream = id.map_or(false, |i| m.streams.contains(&i));
                let live_query = id.map_or(false, |i| m.queries.contains(&i));
                if !m.open && ok {
                    return Some(("state:stream-command-after-close".into(), format!("'{}' -> '{}'", c.text.chars().take(100).collect::<String>(), reply)));
                }
                if m.open && !live_stream && !live_query && ok {
                    return Some(("state:unknown-id-accepted".into(), format!("'{}' -> '{}' (live ids {:?})", c.text.chars().take(100).collect::<String>(), reply, m.streams)));
                }
                if live_stream && reply.contains("not found") {
                    return Some(("state:live-id-not-found".into(), format!("'{}' -> '{}'", c.text.chars().take(100).collect::<String>(), reply)));
                }
                if ok {
                    match c.kind {
                        "stop" => {
                            if let Some(i) = id {
                                m.streams.remove(&i);
                                m.queries.remove(&i);
                                m.stale.push(i);
                            }
                        }
                        "change_window" => {
                            if let (Some(old), Some(new)) = (id, extract_id(&reply)) {
                                if new == old {
                                    return Some(("state:window-change-kept-id".into(), reply));
                                }
                                if m.streams.remove(&old) {
                                    m.streams.insert(new);
                                } else if m.queries.remove(&old) {
                                    m.queries.insert(new);
                                }
                                m.stale.push(old);
                            }
                        }
                        _ => {}
                    }
                }
            }
            _ => {}
        }
    }
    // a final quiet period must not contain a (second) reply
    let tail = cl.collect(Duration::from_millis(500));
    if let Some(Frame::Reply(r)) = tail.iter().find(|f| matches!(f, Frame::Reply(_))) {
        return Some(("second-reply".into(), format!("an additional reply arrived after the last command: '{}'", r.chars().take(100).collect::<String>())));
    }
    if !srv.alive() {
        return Some(("server-died".into(), format!("the server process exited; stderr: {}", srv.stderr_tail())));
    }
    if srv.stderr_panics().len() > panics_before {
        return Some(("server-panic".into(), format!("stderr: {}", srv.stderr_panics().last().unwrap())));
    }
    // after a close a new open must work
    if had_malformed && had_stateful {
        rep.inc("nontrivial");
        kinds.dedup();
        rep.sig(fnv(kinds.join(",").as_bytes()));
    }
    let _ = cl.ws.close(None);
    None
}

pub fn run(p: &Params) -> Report {
    let mut rep = Report::new("C15");
    if p.replay.is_some() {
        rep.note("C15 replay files carry the command history; timing dependent: re-run ./check C15 with the recorded seed".into());
        return rep;
    }
    let bin = match p.val("adlt_bin") {
        Some(b) => b,
        None => {
            rep.note("adlt_bin= argument missing".into());
            return rep;
        }
    };
    let dir = tempfile::tempdir().expect("tempdir");
    let mut rng0 = Rng::new(p.case_seed(0) ^ 0xC15);
    let small = dir.path().join("small.dlt");
    write_dlt(&small, 150, &mut rng0);
    let big = dir.path().join("big.dlt");
    write_big_dlt(&big, 150_000);
    // a zip with the small file
    let zip = dir.path().join("arch.zip");
    std::fs::write(&zip, crate::c20::write_zip(&[crate::c20::Member { name: "inner/small.dlt".into(), data: std::fs::read(&small).unwrap() }])).unwrap();
    let bad_zip = dir.path().join("garbage.zip");
    std::fs::write(&bad_zip, b"this is not a zip archive at all, just some text that is long enough to look like a file").unwrap();
    let cut_zip = dir.path().join("cut.zip");
    {
        let z = std::fs::read(&zip).unwrap();
        std::fs::write(&cut_zip, &z[..z.len() * 2 / 3]).unwrap();
    }
    let big_zip = dir.path().join("slow.zip");
    {
        let data = std::fs::read(&big).unwrap();
        let members: Vec<crate::c20::Member> = (0..4).map(|k| crate::c20::Member { name: format!("part{}.dlt", k), data: data.clone() }).collect();
        std::fs::write(&big_zip, crate::c20::write_zip(&members)).unwrap();
    }
    let cx = Ctx { repo_zip: "/repo/tests/lc_ex002.zip".to_string(), big_zip: big_zip.to_string_lossy().to_string(), small: small.to_string_lossy().to_string(), big: big.to_string_lossy().to_string(), zip: zip.to_string_lossy().to_string(), bad_zip: bad_zip.to_string_lossy().to_string(), cut_zip: cut_zip.to_string_lossy().to_string() };
    let mut srv: Option<Server> = None;
    let mut i = 0u64;
    while (p.cases == 0 || i < p.cases) && !p.time_up() {
        let mut rng = Rng::new(p.case_seed(i) ^ 0xC15);
        i += 1;
        if srv.is_none() {
            // pacing of the parser / tiny channels so that pipeline threads are blocked when close arrives
            let mut env = vec![];
            match rng.below(4) {
                0 => env.push(("ADLT_VERIF_PAUSE".to_string(), format!("ParserMsg:1:{}", 5 + rng.below(40)))),
                1 => {
                    env.push(("ADLT_VERIF_CHAN_CAP".to_string(), (*rng.pick(&[1usize, 2, 16])).to_string()));
                }
                _ => {}
            }
            rep.inc("servers_started");
            srv = Server::spawn(&bin, dir.path(), &env);
            if srv.is_none() {
                rep.inc("inconclusive_server_start");
                continue;
            }
        }
        let s = srv.as_mut().unwrap();
        let mut history = vec![];
        let v = session(&mut rng, s, &cx, &mut rep, &mut history);
        rep.inc("evaluations");
        for (class, blk) in s.stderr_sanitizer_reports() {
            if class.ends_with("without-repo-frame") {
                rep.note(format!("sanitizer report in the server without a frame in /repo/src: {}", blk.lines().next().unwrap_or("")));
            } else {
                rep.violation(&class, blk.chars().take(1500).collect(), json!({"kind":"c15","history": history}));
            }
        }
        if let Some((class, detail)) = v {
            rep.violation(&class, detail, json!({"kind":"c15","history": history}));
            // restart the server after a violation (its state is unknown)
            if let Some(s) = srv.take() {
                s.kill();
            }
        } else if rep.want_sample() && history.len() < 14 {
            rep.sample(json!({"command_history": history}));
        }
        // restart the server from time to time with another pacing
        if i % 8 == 0 {
            if let Some(s) = srv.take() {
                s.kill();
            }
        }
    }
    if let Some(s) = srv.take() {
        s.kill();
    }
    rep
}
