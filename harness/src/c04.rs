//! C04 parsing depends only on the bytes, not on read chunking or position; LowMarkBufReader model check
use crate::c01::{diff_msg, run_iter};
use crate::gen::*;
use crate::refdlt::*;
use crate::report::*;
use crate::rng::*;
use adlt::dlt::{DltMessage, DLT_MAX_STORAGE_MSG_SIZE};
use adlt::utils::{DltMessageIterator, LowMarkBufReader};
use serde_json::json;
use std::io::{BufRead, Cursor, Read, Seek, SeekFrom};

/// a Read that hands out the data in pieces dictated by a schedule
pub struct ScriptedSource<'a> {
    data: &'a [u8],
    pos: usize,
    sched: Schedule,
    rng: Rng,
    calls: u64,
    pub reads: u64,
    pub short_reads: u64,
    pub distinct_lens: std::collections::BTreeSet<usize>,
}

#[derive(Clone, Copy, Debug, PartialEq)]
pub enum Schedule {
    Ones,
    Pow2PlusMinus,
    Random(usize),
    OnesThenHuge(u64),
    Full,
    UpTo(usize),
    Alternate(usize, usize),
}

impl<'a> ScriptedSource<'a> {
    pub fn new(data: &'a [u8], sched: Schedule, seed: u64) -> Self {
        ScriptedSource {
            data,
            pos: 0,
            sched,
            rng: Rng::new(seed),
            calls: 0,
            reads: 0,
            short_reads: 0,
            distinct_lens: Default::default(),
        }
    }
}

impl Read for ScriptedSource<'_> {
    fn read(&mut self, buf: &mut [u8]) -> std::io::Result<usize> {
        self.calls += 1;
        let avail = self.data.len() - self.pos;
        if avail == 0 || buf.is_empty() {
            return Ok(0);
        }
        let want = match self.sched {
            Schedule::Ones => 1,
            Schedule::Pow2PlusMinus => {
                let p = 1usize << self.rng.below(17);
                match self.rng.below(3) {
                    0 => p.saturating_sub(1).max(1),
                    1 => p,
                    _ => p + 1,
                }
            }
            Schedule::Random(k) => 1 + self.rng.usize_below(k),
            Schedule::OnesThenHuge(n) => {
                if self.calls % (n + 1) == 0 {
                    usize::MAX
                } else {
                    1
                }
            }
            Schedule::Full => usize::MAX,
            Schedule::UpTo(k) => k,
            Schedule::Alternate(a, b) => {
                if self.calls % 2 == 0 {
                    a
                } else {
                    b
                }
            }
        };
        let n = want.min(avail).min(buf.len());
        buf[..n].copy_from_slice(&self.data[self.pos..self.pos + n]);
        self.pos += n;
        self.reads += 1;
        if n < buf.len() {
            self.short_reads += 1;
        }
        if self.distinct_lens.len() < 64 {
            self.distinct_lens.insert(n);
        }
        Ok(n)
    }
}

fn pick_schedule(rng: &mut Rng) -> Schedule {
    match rng.below(9) {
        0 => Schedule::Ones,
        1 => Schedule::Pow2PlusMinus,
        2 => Schedule::Random(*rng.pick(&[2usize, 7, 100, 5000, 70000])),
        3 => Schedule::OnesThenHuge(*rng.pick(&[3u64, 100, 5000, 70000])),
        4 => Schedule::Full,
        5 => Schedule::UpTo(*rng.pick(&[DLT_MAX_STORAGE_MSG_SIZE, DLT_MAX_STORAGE_MSG_SIZE - 1, 4096, 4095, 4097, 20, 16, 3])),
        6 => Schedule::Alternate(1, *rng.pick(&[4096usize, 65551, 1 << 20])),
        7 => Schedule::Random(17),
        _ => Schedule::Pow2PlusMinus,
    }
}

fn sched_class(s: Schedule) -> u8 {
    match s {
        Schedule::Ones => 0,
        Schedule::Pow2PlusMinus => 1,
        Schedule::Random(_) => 2,
        Schedule::OnesThenHuge(_) => 3,
        Schedule::Full => 4,
        Schedule::UpTo(_) => 5,
        Schedule::Alternate(_, _) => 6,
    }
}

/// a large stream (larger than the reader capacity so that compactions happen)
pub struct BigStream {
    pub serial: bool,
    pub bytes: Vec<u8>,
    pub embedded: bool,
    pub max_msg_size: usize,
    pub n_generated: usize,
    /// truth (only for marker free streams)
    pub truth: Option<StreamCase>,
}

pub fn gen_big_stream(rng: &mut Rng, target: usize) -> BigStream {
    let serial = rng.chance(1, 3);
    let embedded = rng.chance(1, 3);
    let mut msgs = Vec::new();
    let mut garbage = Vec::new();
    let mut size = 0usize;
    let o = MsgOpts { micros_valid: false, huge_per_mille: 0, version_one: false };
    let style = rng.below(4); // 0: small msgs, 1: mixed, 2: many huge, 3: mixed with lots of garbage
    while size < target {
        let g = if style == 3 || rng.chance(1, 6) { let huge = style == 3 && rng.chance(1, 30); gen_garbage(rng, huge) } else { vec![] };
        size += g.len();
        garbage.push(g);
        let pl = match style {
            0 => rng.below(64) as usize,
            2 => {
                if rng.chance(1, 2) {
                    65535 - rng.below(30) as usize
                } else {
                    rng.below(70000) as usize
                }
            }
            _ => match rng.below(20) {
                0 => 65535 - rng.below(30) as usize,
                1 | 2 => rng.below(20000) as usize,
                _ => rng.below(300) as usize,
            },
        };
        let shape = rng.below(32) as u8;
        let mut m = gen_msg_shape(rng, serial, shape, pl, &o);
        if embedded && rng.chance(1, 4) && m.payload.len() >= 8 {
            // embed a marker of the same framing inside the payload
            let at = rng.usize_below(m.payload.len() - 4);
            let mk = if serial { MARKER_SERIAL } else { MARKER_STORAGE };
            m.payload[at..at + 4].copy_from_slice(&mk);
            if rng.chance(1, 2) && m.payload.len() >= at + 4 + 24 {
                // ... followed by something that looks like a small message
                let (fs, fl) = (rng.below(32) as u8, rng.below(8) as usize);
                let fake = gen_msg_shape(rng, serial, fs, fl, &o).encode();
                let l = fake.len().min(m.payload.len() - at);
                m.payload[at..at + l].copy_from_slice(&fake[..l]);
            }
        }
        size += m.encoded_size();
        msgs.push(m);
    }
    let g = if rng.chance(1, 2) { gen_garbage(rng, false) } else { vec![] };
    garbage.push(g);
    if embedded {
        // garbage may contain markers of the same framing too
        for g in garbage.iter_mut() {
            if g.len() >= 4 && rng.chance(1, 3) {
                let at = rng.usize_below(g.len() - 3);
                let mk = if serial { MARKER_SERIAL } else { MARKER_STORAGE };
                g[at..at + 4].copy_from_slice(&mk);
            }
        }
    }
    let max_msg_size = msgs.iter().map(|m| m.encoded_size()).max().unwrap_or(0);
    let n_generated = msgs.len();
    if embedded {
        let mut bytes = Vec::with_capacity(size + 100);
        let mut free = Vec::with_capacity(size + 100);
        for (i, m) in msgs.iter().enumerate() {
            bytes.extend_from_slice(&garbage[i]);
            free.extend(std::iter::repeat(true).take(garbage[i].len()));
            m.encode_into(&mut bytes, Some(&mut free));
        }
        bytes.extend_from_slice(&garbage[msgs.len()]);
        free.extend(std::iter::repeat(true).take(garbage[msgs.len()].len()));
        // remove markers of the OTHER framing (auto detection of the framing is not what we test here)
        let other = if serial { b'T' } else { b'S' };
        loop {
            let bad: Vec<usize> = find_markers(&bytes).into_iter().filter(|p| bytes[*p + 2] == other).collect();
            if bad.is_empty() {
                break;
            }
            for p in bad {
                let c: Vec<usize> = (p..p + 4).filter(|i| free[*i]).collect();
                if let Some(i) = c.first() {
                    bytes[*i] = 0x7e;
                } else {
                    bytes[p + 2] = if serial { b'S' } else { b'T' }; // cannot happen (marker bytes of own framing are never 'other')
                }
            }
        }
        BigStream { serial, bytes, embedded, max_msg_size, n_generated, truth: None }
    } else {
        let c = assemble(rng, serial, &msgs, &garbage);
        BigStream { serial, bytes: c.bytes.clone(), embedded, max_msg_size, n_generated, truth: Some(c) }
    }
}

pub struct PosIterResult {
    pub msgs: Vec<DltMessage>,
    pub pos_after: Vec<usize>,
    pub bytes_processed: usize,
    pub bytes_skipped: usize,
}

pub fn run_iter_pos<R: BufRead>(start: u32, r: R) -> PosIterResult {
    let mut it = DltMessageIterator::new(start, r);
    let mut msgs = Vec::new();
    let mut pos_after = Vec::new();
    while let Some(m) = it.next() {
        msgs.push(m);
        pos_after.push(it.bytes_processed);
    }
    PosIterResult { msgs, pos_after, bytes_processed: it.bytes_processed, bytes_skipped: it.bytes_skipped }
}

fn first_diff(a: &[DltMessage], b: &[DltMessage], index_shift: u32) -> Option<String> {
    let n = a.len().min(b.len());
    for i in 0..n {
        let mut x = a[i].clone();
        x.index = x.index.wrapping_sub(index_shift);
        if x != b[i] {
            return Some(format!("message {} differs: {:?} vs {:?}", i, short(&x), short(&b[i])));
        }
    }
    if a.len() != b.len() {
        return Some(format!("{} vs {} messages", a.len(), b.len()));
    }
    None
}
fn short(m: &DltMessage) -> String {
    format!("idx {} ecu {:?} t {} htyp {:x} mcnt {} len {} payload {}B", m.index, m.ecu, m.timestamp_dms, m.standard_header.htyp, m.standard_header.mcnt, m.standard_header.len, m.payload.len())
}

fn replay_ab(s: &BigStream, what: &str, sched: Schedule, cap: usize, sseed: u64, extra: serde_json::Value) -> serde_json::Value {
    json!({"kind":"c04", "what": what, "serial": s.serial, "embedded": s.embedded, "schedule": format!("{:?}", sched), "schedule_seed": sseed, "capacity": cap, "extra": extra,
        "bytes_hex": if s.bytes.len() <= 400_000 { hex(&s.bytes) } else { format!("<{} bytes>", s.bytes.len()) }})
}

/// (a)+(b): chunking and position independence of the message sequence
fn part_ab(p: &Params, rep: &mut Report, i: u64) {
    let mut rng = Rng::new(p.case_seed(i));
    let low = DLT_MAX_STORAGE_MSG_SIZE;
    let cap = match rng.below(4) {
        0 => low + 4096,
        1 => low + 4096 + rng.usize_below(2 * 4096 + 100),
        2 => low + 3 * 4096 + rng.usize_below(4096),
        _ => 512 * 1024,
    };
    let target = if cap > 200_000 {
        if rng.chance(1, 4) { cap + rng.usize_below(cap) } else { 20_000 + rng.usize_below(100_000) }
    } else {
        cap / 2 + rng.usize_below(2 * cap)
    };
    let s = gen_big_stream(&mut rng, target);
    rep.inc("evaluations");
    rep.inc("ab_streams");
    rep.add("ab_bytes", s.bytes.len() as u64);
    if s.embedded {
        rep.inc("ab_streams_embedded_markers");
    }
    rep.max("max_message_size", s.max_msg_size as u64);
    let whole = match crate::guard::catch(|| run_iter_pos(0, Cursor::new(&s.bytes[..]))) {
        Ok(r) => r,
        Err(pi) => {
            rep.violation(&pi.class(), format!("panic at {}:{} {}", pi.file, pi.line, pi.msg), replay_ab(&s, "whole", Schedule::Full, 0, 0, json!(null)));
            return;
        }
    };
    rep.add("ab_messages", whole.msgs.len() as u64);
    // marker free: the whole-buffer run must equal the generator truth (C01's oracle, re-used as a sanity anchor)
    if let Some(t) = &s.truth {
        let bad = if whole.msgs.len() != t.msgs.len() {
            Some(format!("{} vs {} generated", whole.msgs.len(), t.msgs.len()))
        } else {
            whole.msgs.iter().zip(t.msgs.iter()).enumerate().find_map(|(k, (m, r))| diff_msg(m, r, k as u32))
        };
        if let Some(d) = bad {
            rep.violation("whole-vs-truth", d, replay_ab(&s, "whole", Schedule::Full, 0, 0, json!(null)));
            return;
        }
    }
    // (a) chunked runs
    let nsched = if p.thorough { 3 } else { 2 };
    for k in 0..nsched {
        let sched = if k == 0 && rng.chance(1, 3) { Schedule::Ones } else { pick_schedule(&mut rng) };
        let sseed = rng.next_u64();
        let mut src_stats = (0u64, 0u64, 0usize);
        let res = crate::guard::catch(|| {
            let src = ScriptedSource::new(&s.bytes, sched, sseed);
            let mut rd = LowMarkBufReader::new(src, cap, low);
            let mut it = DltMessageIterator::new(0, &mut rd);
            let mut msgs = Vec::new();
            for m in &mut it {
                msgs.push(m);
            }
            let bp = it.bytes_processed;
            let bs = it.bytes_skipped;
            drop(it);
            (msgs, bp, bs)
        });
        let _ = &mut src_stats;
        match res {
            Err(pi) => {
                rep.violation(&pi.class(), format!("panic at {}:{} {}", pi.file, pi.line, pi.msg), replay_ab(&s, "chunked", sched, cap, sseed, json!(null)));
                return;
            }
            Ok((msgs, bp, bs)) => {
                rep.inc("ab_chunked_runs");
                rep.inc(&format!("ab_sched_class_{}", sched_class(sched)));
                let d = first_diff(&msgs, &whole.msgs, 0).or_else(|| {
                    if bp != whole.bytes_processed || bs != whole.bytes_skipped {
                        Some(format!("counters processed/skipped {}/{} vs {}/{}", bp, bs, whole.bytes_processed, whole.bytes_skipped))
                    } else {
                        None
                    }
                });
                if let Some(d) = d {
                    // narrow class for the known look-ahead dependence of the corrupt-message heuristic
                    let has_huge = |v: &[DltMessage]| v.iter().any(|m| m.standard_header.len as usize + 16 > DLT_MAX_STORAGE_MSG_SIZE - 4);
                    let class = if s.embedded && !s.serial && (has_huge(&msgs) || has_huge(&whole.msgs)) {
                        "chunking:heuristic-lookahead-msg>65547-with-embedded-marker"
                    } else {
                        "chunking"
                    };
                    rep.violation(class, format!("schedule {:?} cap {}: {}", sched, cap, d), replay_ab(&s, "chunked", sched, cap, sseed, json!(null)));
                    return;
                }
                if s.bytes.len() > cap {
                    // at least one compaction must have happened and reads below the low mark were short
                    rep.inc("nontrivial");
                    rep.sig(fnv(&[b'a', sched_class(sched), (cap % 251) as u8, (cap / 4096) as u8, s.serial as u8, s.embedded as u8, (s.max_msg_size > 60000) as u8, (s.n_generated > 100) as u8]));
                }
            }
        }
    }
    // (b) suffix runs: start after j whole (recognised) messages
    if whole.msgs.len() >= 2 {
        for _ in 0..2 {
            let j = 1 + rng.usize_below(whole.msgs.len() - 1);
            let start = whole.pos_after[j - 1];
            let res = crate::guard::catch(|| run_iter_pos(0, Cursor::new(&s.bytes[start..])));
            match res {
                Err(pi) => {
                    rep.violation(&pi.class(), format!("panic at {}:{} {}", pi.file, pi.line, pi.msg), replay_ab(&s, "suffix", Schedule::Full, 0, 0, json!({"suffix_start": start})));
                    return;
                }
                Ok(sfx) => {
                    rep.inc("ab_suffix_runs");
                    if let Some(d) = first_diff(&whole.msgs[j..], &sfx.msgs, j as u32) {
                        rep.violation("suffix", format!("suffix after {} messages (byte {}): {}", j, start, d), replay_ab(&s, "suffix", Schedule::Full, 0, 0, json!({"suffix_start": start, "messages_before": j})));
                        return;
                    }
                }
            }
        }
    }
    if rep.want_sample() && s.bytes.len() > cap {
        rep.sample(json!({"part": "a/b", "stream_bytes": s.bytes.len(), "framing": if s.serial {"serial"} else {"storage"}, "embedded_markers": s.embedded, "generated_messages": s.n_generated, "recognised_messages": whole.msgs.len(), "capacity": cap, "low_mark": low, "max_message_size": s.max_msg_size}));
    }
}

fn pattern_data(rng: &mut Rng, n: usize) -> Vec<u8> {
    let k = rng.next_u64() | 1;
    (0..n).map(|i| ((i as u64).wrapping_mul(k) >> 11) as u8 ^ (i as u8)).collect()
}

/// (c) the reader alone against the model (data, pos)
fn part_c(p: &Params, rep: &mut Report, i: u64) {
    let mut rng = Rng::new(p.case_seed(i) ^ 0xCCCC);
    let low = if p.has("tiny") { *rng.pick(&[1usize, 7, 100]) } else { *rng.pick(&[1usize, 7, 4096, 4096, DLT_MAX_STORAGE_MSG_SIZE, 100]) };
    let cap = low + 4096 + *rng.pick(&[0usize, 0, 1, 100, 4096, 5000]);
    let n = match rng.below(5) {
        0 => rng.usize_below(cap),
        1 => cap + rng.usize_below(10),
        _ => cap + rng.usize_below(3 * cap),
    };
    let data = pattern_data(&mut rng, n);
    let sched = pick_schedule(&mut rng);
    let sseed = rng.next_u64();
    let nops = if p.has("tiny") { 20 + rng.usize_below(60) } else if low > 10000 { 50 + rng.usize_below(400) } else { 50 + rng.usize_below(3000) };
    rep.inc("evaluations");
    rep.inc("c_histories");
    let mut ops_log: Vec<String> = Vec::new();
    let mut compactions_possible = 0u64;
    let mut seeks_ok = 0u64;
    let mut seeks_rej = 0u64;
    let mut back_seeks_ok = 0u64;
    let res = crate::guard::catch(|| -> Option<(String, String)> {
        let src = ScriptedSource::new(&data, sched, sseed);
        let mut rd = LowMarkBufReader::new(src, cap, low);
        let mut pos = 0usize; // model position
        let mut max_pos = 0usize;
        for _ in 0..nops {
            let op = rng.below(10);
            match op {
                0..=3 => {
                    // fill_buf + consume
                    let (len, ok_prefix) = {
                        let b = rd.fill_buf().unwrap();
                        (b.len(), b.len() <= data.len() - pos && b == &data[pos..pos + b.len()])
                    };
                    ops_log.push(format!("fill_buf->{}", len));
                    if !ok_prefix {
                        return Some(("reader:fill_buf-content".into(), format!("fill_buf at pos {} returned {} bytes that are not data[pos..]", pos, len)));
                    }
                    let need = low.min(data.len() - pos);
                    if len < need {
                        return Some(("reader:lookahead".into(), format!("fill_buf at pos {} returned {} bytes, low mark {} and {} bytes left in the source", pos, len, low, data.len() - pos)));
                    }
                    if len == 0 && pos != data.len() {
                        return Some(("reader:early-eof".into(), format!("empty fill_buf at pos {} of {}", pos, data.len())));
                    }
                    let amt = match rng.below(6) {
                        0 => 0,
                        1 => len,
                        2 => len.min(1),
                        3 => len + rng.usize_below(3), // beyond the buffer: clamped by the implementation
                        _ => rng.usize_below(len + 1),
                    };
                    rd.consume(amt);
                    ops_log.push(format!("consume({})", amt));
                    pos += amt.min(len);
                }
                4..=6 => {
                    // read
                    let k = match rng.below(5) {
                        0 => 0,
                        1 => 1,
                        2 => cap + 10,
                        _ => rng.usize_below(2 * low + 10),
                    };
                    let mut buf = vec![0u8; k];
                    let nread = rd.read(&mut buf).unwrap();
                    ops_log.push(format!("read({})->{}", k, nread));
                    if nread > k || nread > data.len() - pos || buf[..nread] != data[pos..pos + nread] {
                        return Some(("reader:read-content".into(), format!("read({}) at pos {} returned {} bytes that are not data[pos..]", k, pos, nread)));
                    }
                    if nread == 0 && k > 0 && pos != data.len() {
                        return Some(("reader:early-eof".into(), format!("read({}) returned 0 at pos {} of {}", k, pos, data.len())));
                    }
                    pos += nread;
                }
                _ => {
                    // seek
                    let (target, sf) = match rng.below(6) {
                        0 => {
                            let t = pos.saturating_sub(rng.usize_below(5000));
                            (t, SeekFrom::Start(t as u64))
                        }
                        1 => {
                            let t = (pos + rng.usize_below(5000)).min(data.len() + 10);
                            (t, SeekFrom::Start(t as u64))
                        }
                        2 => {
                            let d = rng.usize_below(cap) as i64 - (cap / 2) as i64;
                            let t = (pos as i64 + d).max(0) as usize;
                            (t, SeekFrom::Current(d))
                        }
                        3 => (0, SeekFrom::Start(0)),
                        4 => (pos, SeekFrom::Current(0)),
                        _ => {
                            let t = rng.usize_below(max_pos + 1);
                            (t, SeekFrom::Start(t as u64))
                        }
                    };
                    let r = rd.seek(sf);
                    ops_log.push(format!("seek({:?})->{:?}", sf, r.as_ref().map(|x| *x).map_err(|_| "err")));
                    match r {
                        Ok(nn) => {
                            if nn as usize != target {
                                return Some(("reader:seek-result".into(), format!("seek to {} answered {}", target, nn)));
                            }
                            if target > data.len() {
                                return Some(("reader:seek-beyond-data".into(), format!("seek to {} accepted, data has {}", target, data.len())));
                            }
                            if target < pos {
                                back_seeks_ok += 1;
                            }
                            seeks_ok += 1;
                            pos = target;
                            // what is handed out next must be data[target..]
                            let b = rd.buffer();
                            if b.len() > data.len() - pos || b != &data[pos..pos + b.len()] {
                                return Some(("reader:seek-stale-data".into(), format!("after accepted seek to {} the buffer does not hold data[{}..]", target, target)));
                            }
                        }
                        Err(_) => {
                            seeks_rej += 1;
                            // position unchanged: checked by the following operations
                        }
                    }
                }
            }
            if pos > max_pos {
                if pos / 4096 != max_pos / 4096 {
                    compactions_possible += 1;
                }
                max_pos = pos;
            }
        }
        // drain: everything that is left must come out exactly once, in order
        loop {
            let (len, ok_prefix) = {
                let b = rd.fill_buf().unwrap();
                (b.len(), b.len() <= data.len() - pos && b == &data[pos..pos + b.len()])
            };
            if !ok_prefix {
                return Some(("reader:fill_buf-content".into(), format!("drain: fill_buf at pos {} returned {} bytes that are not data[pos..]", pos, len)));
            }
            if len == 0 {
                break;
            }
            rd.consume(len);
            pos += len;
        }
        if pos != data.len() {
            return Some(("reader:early-eof".into(), format!("drain ended at {} of {}", pos, data.len())));
        }
        None
    });
    rep.add("c_seeks_accepted", seeks_ok);
    rep.add("c_back_seeks_accepted", back_seeks_ok);
    rep.add("c_seeks_rejected", seeks_rej);
    rep.add("c_ops", ops_log.len() as u64);
    let rp = || {
        json!({"kind":"c04c", "low_mark": low, "capacity": cap, "data_len": n, "schedule": format!("{:?}", sched), "case_seed": p.case_seed(i), "ops_tail": ops_log.iter().rev().take(30).rev().collect::<Vec<_>>()})
    };
    match res {
        Err(pi) => rep.violation(&pi.class(), format!("panic at {}:{} {}", pi.file, pi.line, pi.msg), rp()),
        Ok(Some((class, detail))) => rep.violation(&class, detail, rp()),
        Ok(None) => {
            if n > cap && compactions_possible > 0 {
                rep.inc("nontrivial");
                rep.sig(fnv(&[b'c', sched_class(sched), (low % 251) as u8, (cap - low - 4096 > 0) as u8, (n / cap) as u8, (seeks_ok > 0) as u8, (back_seeks_ok > 0) as u8, (seeks_rej > 0) as u8]));
                if rep.samples.len() < 2 + 2 {
                    rep.sample(json!({"part": "c", "low_mark": low, "capacity": cap, "data_len": n, "schedule": format!("{:?}", sched), "first_ops": ops_log.iter().take(12).collect::<Vec<_>>()}));
                }
            }
        }
    }
}

pub fn run(p: &Params) -> Report {
    let mut rep = Report::new("C04");
    rep.max_samples = 4;
    if let Some(path) = &p.replay {
        replay(path, &mut rep, p);
        return rep;
    }
    let mut i = 0u64;
    let tiny = p.has("tiny");
    while (p.cases == 0 || i < p.cases) && !p.time_up() {
        if i % 4 == 3 && !tiny {
            part_ab(p, &mut rep, i);
        } else {
            part_c(p, &mut rep, i);
        }
        i += 1;
    }
    rep
}

fn replay(path: &str, rep: &mut Report, p: &Params) {
    let v: serde_json::Value = serde_json::from_str(&std::fs::read_to_string(path).expect("read replay")).expect("parse");
    let r = if v.get("replay").is_some() { v["replay"].clone() } else { v };
    if r["kind"] == "c04c" {
        // regenerate from the case seed (the generator is deterministic for a given harness version)
        let cs = r["case_seed"].as_u64().unwrap_or(0);
        let mut p2 = p.clone();
        p2.seed = 0;
        p2.shard = 0;
        // case_seed(i) is linear in i: brute force is not possible, so run part_c with a Params whose case_seed(0) == cs
        struct Fixed(u64);
        let _ = Fixed(cs);
        rep.note("replay of c04c histories: re-run `vmon c04 --seed S --shard K` as recorded in the evidence; ops tail is in the replay file".into());
        return;
    }
    let bytes = unhex(r["bytes_hex"].as_str().unwrap_or(""));
    let whole = run_iter_pos(0, Cursor::new(&bytes[..]));
    rep.inc("evaluations");
    let cap = r["capacity"].as_u64().unwrap_or(0) as usize;
    if cap > 0 {
        for sched in [Schedule::Ones, Schedule::Full, Schedule::Pow2PlusMinus, Schedule::UpTo(DLT_MAX_STORAGE_MSG_SIZE)] {
            let src = ScriptedSource::new(&bytes, sched, r["schedule_seed"].as_u64().unwrap_or(1));
            let rd = LowMarkBufReader::new(src, cap, DLT_MAX_STORAGE_MSG_SIZE);
            let res = run_iter(0, rd);
            if let Some(d) = first_diff(&res.msgs, &whole.msgs, 0) {
                let has_huge = |v: &[DltMessage]| v.iter().any(|m| m.standard_header.len as usize + 16 > DLT_MAX_STORAGE_MSG_SIZE - 4);
                let serial = r["serial"].as_bool().unwrap_or(false);
                let embedded = r["embedded"].as_bool().unwrap_or(false);
                let class = if embedded && !serial && (has_huge(&res.msgs) || has_huge(&whole.msgs)) {
                    "chunking:heuristic-lookahead-msg>65547-with-embedded-marker"
                } else {
                    "chunking"
                };
                rep.violation(class, format!("schedule {:?}: {}", sched, d), r.clone());
            }
        }
    }
    if let Some(s) = r["extra"]["suffix_start"].as_u64() {
        let j = r["extra"]["messages_before"].as_u64().unwrap_or(0) as usize;
        let sfx = run_iter_pos(0, Cursor::new(&bytes[s as usize..]));
        if let Some(d) = first_diff(&whole.msgs[j..], &sfx.msgs, j as u32) {
            rep.violation("suffix", d, r.clone());
        }
    }
}
