//! C09 merging message sources loses nothing and keeps per-source order
use crate::report::*;
use crate::rng::*;
use adlt::dlt::{DltChar4, DltMessage, DltStandardHeader};
use adlt::utils::sorting_multi_readeriterator::{SequentialMultiIterator, SortingMultiReaderIterator};
use serde_json::json;

fn mk_msg(src: u32, pos: u32, recv: u64, rng: &mut Rng) -> DltMessage {
    let mut payload = Vec::with_capacity(8);
    payload.extend_from_slice(&src.to_le_bytes());
    payload.extend_from_slice(&pos.to_le_bytes());
    DltMessage {
        index: rng.next_u32(), // arbitrary: must be renumbered
        reception_time_us: recv,
        ecu: DltChar4::from_buf(b"ECU1"),
        timestamp_dms: rng.next_u32(),
        standard_header: DltStandardHeader { htyp: 0x30, mcnt: pos as u8, len: 16 },
        extended_header: None,
        payload,
        payload_text: None,
        lifecycle: 0,
    }
}
fn ident(m: &DltMessage) -> (u32, u32) {
    (
        u32::from_le_bytes(m.payload[0..4].try_into().unwrap()),
        u32::from_le_bytes(m.payload[4..8].try_into().unwrap()),
    )
}

pub struct Case {
    pub sources: Vec<Vec<DltMessage>>,
    pub start: u32,
    pub all_sorted: bool,
    pub ties: bool,
}

pub fn gen_case(rng: &mut Rng, thorough: bool) -> Case {
    let k = if thorough && rng.chance(1, 200) {
        500 + rng.usize_below(1500)
    } else {
        match rng.below(8) {
            0 => 0,
            1 => 1,
            2 => 2,
            _ => rng.usize_below(13),
        }
    };
    let many = k > 50;
    let time_mode = rng.below(4); // 0 equal, 1 increasing, 2 random, 3 increasing with heavy ties
    let mut all_sorted = true;
    let mut ties = false;
    let mut sources = Vec::with_capacity(k);
    let base = 1_600_000_000_000_000u64;
    for s in 0..k {
        let n = if many {
            if rng.chance(1, 20) { rng.usize_below(5) } else { 0 }
        } else {
            match rng.below(6) {
                0 => 0,
                1 => 1,
                _ => {
                    let mx = if rng.chance(1, 10) { 200 } else { 20 };
                    rng.usize_below(mx)
                }
            }
        };
        let mut v = Vec::with_capacity(n);
        let mut t = base + rng.below(1000);
        for p in 0..n {
            let recv = match time_mode {
                0 => base,
                1 => {
                    t += 1 + rng.below(100);
                    t
                }
                2 => base + rng.below(10_000),
                _ => {
                    t += rng.below(2);
                    t
                }
            };
            v.push(mk_msg(s as u32, p as u32, recv, rng));
        }
        if v.windows(2).any(|w| w[0].reception_time_us > w[1].reception_time_us) {
            all_sorted = false;
        }
        sources.push(v);
    }
    if time_mode == 0 || time_mode == 3 {
        ties = true;
    }
    let total: usize = sources.iter().map(|v| v.len()).sum();
    let start = match rng.below(5) {
        0 => 1,
        1 => u32::MAX - total as u32,
        2 => rng.next_u32() >> 1,
        3 => 1 << 31,
        _ => 0,
    };
    Case { sources, start, all_sorted, ties }
}

fn boxed<'a>(v: &'a [DltMessage]) -> Box<dyn Iterator<Item = DltMessage> + 'a> {
    Box::new(v.iter().cloned())
}

/// check the common parts: multiset, per source order, unchanged content. single = index not checked
fn check_merge(c: &Case, out: &[DltMessage], check_index: bool, what: &str) -> Option<(String, String)> {
    let total: usize = c.sources.iter().map(|v| v.len()).sum();
    let mut next_pos = vec![0u32; c.sources.len()];
    for (k, m) in out.iter().enumerate() {
        if m.payload.len() != 8 {
            return Some((format!("{}:altered", what), format!("output {} has a changed payload", k)));
        }
        let (s, p) = ident(m);
        if s as usize >= c.sources.len() {
            return Some((format!("{}:altered", what), format!("output {} has unknown source {}", k, s)));
        }
        if p != next_pos[s as usize] {
            let class = if p < next_pos[s as usize] { "duplicated" } else { "lost-or-reordered" };
            return Some((format!("{}:{}", what, class), format!("output {}: source {} position {} but expected position {}", k, s, p, next_pos[s as usize])));
        }
        next_pos[s as usize] += 1;
        let orig = &c.sources[s as usize][p as usize];
        let mut mm = m.clone();
        mm.index = orig.index;
        if &mm != orig {
            return Some((format!("{}:altered", what), format!("output {} differs from its source message beyond the index", k)));
        }
        if check_index && m.index != c.start.wrapping_add(k as u32) {
            return Some((format!("{}:index", what), format!("output {} has index {} expected {}", k, m.index, c.start.wrapping_add(k as u32))));
        }
    }
    if out.len() != total {
        return Some((format!("{}:lost", what), format!("{} of {} messages yielded", out.len(), total)));
    }
    None
}

pub fn check_case(c: &Case) -> Option<(String, String)> {
    // sorting merge
    let its: Vec<_> = c.sources.iter().map(|v| boxed(v)).collect();
    let out: Vec<DltMessage> = SortingMultiReaderIterator::new(c.start, its).collect();
    if let Some(v) = check_merge(c, &out, true, "sorting") {
        return Some(v);
    }
    if c.all_sorted && out.windows(2).any(|w| w[0].reception_time_us > w[1].reception_time_us) {
        return Some(("sorting:not-ordered".into(), "all sources are ordered by reception time but the merged stream is not".into()));
    }
    // new_or_single_it
    let its: Vec<_> = c.sources.iter().map(|v| boxed(v)).collect();
    let single = its.len() == 1;
    let out: Vec<DltMessage> = SortingMultiReaderIterator::new_or_single_it(c.start, its).collect();
    if let Some(v) = check_merge(c, &out, !single, "sorting-or-single") {
        return Some(v);
    }
    if c.all_sorted && out.windows(2).any(|w| w[0].reception_time_us > w[1].reception_time_us) {
        return Some(("sorting-or-single:not-ordered".into(), "sources ordered but output not".into()));
    }
    // sequential
    let its = c.sources.iter().map(|v| boxed(v));
    let out: Vec<DltMessage> = SequentialMultiIterator::new(c.start, its).collect();
    if let Some(v) = check_merge(c, &out, true, "sequential") {
        return Some(v);
    }
    let concat_ok = {
        let mut k = 0;
        let mut ok = true;
        for (s, v) in c.sources.iter().enumerate() {
            for p in 0..v.len() {
                if ident(&out[k]) != (s as u32, p as u32) {
                    ok = false;
                }
                k += 1;
            }
        }
        ok
    };
    if !concat_ok {
        return Some(("sequential:not-concatenation".into(), "output is not the concatenation of the sources".into()));
    }
    let its = c.sources.iter().map(|v| boxed(v));
    let single = c.sources.len() == 1;
    let out: Vec<DltMessage> = SequentialMultiIterator::new_or_single_it(c.start, its).collect();
    if let Some(v) = check_merge(c, &out, !single, "sequential-or-single") {
        return Some(v);
    }
    // the sources arrive through adapters without an exact size hint (lower bound 0 = unknown)
    {
        let its = c.sources.iter().map(|v| boxed(v)).filter(|_| true);
        let out: Vec<DltMessage> = SequentialMultiIterator::new_or_single_it(c.start, its).collect();
        if let Some(v) = check_merge(c, &out, !single, "sequential-or-single-filter") {
            return Some(v);
        }
        let mut k = 0usize;
        let srcs = &c.sources;
        let its = std::iter::from_fn(move || {
            let r = srcs.get(k).map(|v| boxed(v));
            k += 1;
            r
        });
        let out: Vec<DltMessage> = SequentialMultiIterator::new_or_single_it(c.start, its).collect();
        if let Some(v) = check_merge(c, &out, !single, "sequential-or-single-from_fn") {
            return Some(v);
        }
        let its = c.sources.iter().map(|v| boxed(v)).filter(|_| true);
        let out: Vec<DltMessage> = SortingMultiReaderIterator::new_or_single_it(c.start, its.collect::<Vec<_>>()).collect();
        if let Some(v) = check_merge(c, &out, !single, "sorting-or-single-filter") {
            return Some(v);
        }
    }
    // a Vec based iterator of iterators (exact size hint 1 -> single)
    let vits: Vec<Box<dyn Iterator<Item = DltMessage>>> = c.sources.iter().map(|v| boxed(v)).collect();
    let out: Vec<DltMessage> = SequentialMultiIterator::new_or_single_it(c.start, vits.into_iter()).collect();
    if let Some(v) = check_merge(c, &out, !single, "sequential-or-single-vec") {
        return Some(v);
    }
    None
}

fn case_json(c: &Case) -> serde_json::Value {
    json!({"kind":"c09","start": c.start, "sources": c.sources.iter().map(|v| v.iter().map(|m| m.reception_time_us).collect::<Vec<_>>()).collect::<Vec<_>>()})
}

pub fn run(p: &Params) -> Report {
    let mut rep = Report::new("C09");
    if let Some(path) = &p.replay {
        let v: serde_json::Value = serde_json::from_str(&std::fs::read_to_string(path).expect("read")).expect("parse");
        let r = if v.get("replay").is_some() { v["replay"].clone() } else { v };
        let mut rng = Rng::new(1);
        let sources: Vec<Vec<DltMessage>> = r["sources"].as_array().unwrap().iter().enumerate().map(|(s, a)| a.as_array().unwrap().iter().enumerate().map(|(pz, t)| mk_msg(s as u32, pz as u32, t.as_u64().unwrap(), &mut rng)).collect()).collect();
        let all_sorted = sources.iter().all(|v| v.windows(2).all(|w| w[0].reception_time_us <= w[1].reception_time_us));
        let c = Case { sources, start: r["start"].as_u64().unwrap_or(0) as u32, all_sorted, ties: false };
        rep.inc("evaluations");
        if let Ok(Some((class, detail))) = crate::guard::catch(|| check_case(&c)) {
            rep.violation(&class, detail, r.clone());
        }
        return rep;
    }
    let mut i = 0u64;
    while (p.cases == 0 || i < p.cases) && !p.time_up() {
        let mut rng = Rng::new(p.case_seed(i) ^ 0xC09);
        let c = gen_case(&mut rng, p.thorough);
        i += 1;
        rep.inc("evaluations");
        let nonempty = c.sources.iter().filter(|v| !v.is_empty()).count();
        let empties = c.sources.len() - nonempty;
        rep.max("max_sources", c.sources.len() as u64);
        // longest chain of empty sources
        let mut chain = 0u64;
        let mut best = 0u64;
        for v in &c.sources {
            if v.is_empty() {
                chain += 1;
                best = best.max(chain);
            } else {
                chain = 0;
            }
        }
        rep.max("longest_chain_of_empty_sources", best);
        rep.add("messages", c.sources.iter().map(|v| v.len() as u64).sum());
        match crate::guard::catch(|| check_case(&c)) {
            Err(pi) => rep.violation(&pi.class(), format!("panic at {}:{} {}", pi.file, pi.line, pi.msg), case_json(&c)),
            Ok(Some((class, detail))) => rep.violation(&class, detail, case_json(&c)),
            Ok(None) => {
                if nonempty >= 2 && c.ties {
                    rep.inc("nontrivial");
                    let total: usize = c.sources.iter().map(|v| v.len()).sum();
                    rep.sig(fnv(&[c.sources.len().min(40) as u8, empties.min(20) as u8, c.all_sorted as u8, (total / 8).min(60) as u8, (c.start > 0x7000_0000) as u8]));
                    if rep.want_sample() && total <= 8 {
                        rep.sample(case_json(&c));
                    }
                }
            }
        }
    }
    rep
}
