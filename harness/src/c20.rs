//! C20 archives: volumes read as one file; extraction is faithful and confined
use crate::report::*;
use crate::rng::*;
use adlt::utils::seekablechain::SeekableChain;
use adlt::utils::unzip::{extract_archives, extract_to_dir, list_archive_contents};
use serde_json::json;
use std::collections::{BTreeMap, HashMap};
use std::io::{Cursor, Read, Seek, SeekFrom};
use std::path::{Component, Path, PathBuf};
use std::sync::atomic::AtomicBool;
use std::sync::Arc;

// ---------------------------------------------------------------- (a) chain vs cursor

fn split_volumes(rng: &mut Rng, data: &[u8]) -> Vec<Vec<u8>> {
    let k = 1 + rng.usize_below(8);
    let mut cuts: Vec<usize> = (0..k - 1).map(|_| rng.usize_below(data.len() + 1)).collect();
    if rng.chance(1, 3) && !cuts.is_empty() {
        // force empty volumes: duplicate cuts / cuts at the ends
        let c = *rng.pick(&cuts);
        cuts.push(c);
        if rng.chance(1, 2) {
            cuts.push(0);
        }
        if rng.chance(1, 2) {
            cuts.push(data.len());
        }
    }
    cuts.sort_unstable();
    let mut v = Vec::new();
    let mut prev = 0;
    for c in cuts {
        v.push(data[prev..c].to_vec());
        prev = c;
    }
    v.push(data[prev..].to_vec());
    v
}

fn chain_case(rng: &mut Rng, rep: &mut Report) {
    let n = match rng.below(5) {
        0 => rng.usize_below(4),
        1 => rng.usize_below(40),
        _ => rng.usize_below(600),
    };
    let data: Vec<u8> = (0..n).map(|i| (i as u32).wrapping_mul(2654435761).rotate_right(13) as u8 ^ i as u8).collect();
    let vols = split_volumes(rng, &data);
    let sizes: Vec<usize> = vols.iter().map(|v| v.len()).collect();
    let empties = sizes.iter().filter(|s| **s == 0).count();
    let mut chain = SeekableChain::new(vols.into_iter().map(Cursor::new).collect::<Vec<_>>());
    let mut model = Cursor::new(&data[..]);
    let nops_max = if rng.chance(1, 10) { 500 } else { 60 };
    let nops = 10 + rng.usize_below(nops_max);
    let mut ops: Vec<String> = Vec::new();
    let mut crossings = 0u64;
    let mut seeks = 0u64;
    // volume boundaries (absolute)
    let mut bounds = vec![];
    let mut acc = 0usize;
    for s in &sizes {
        acc += s;
        bounds.push(acc);
    }
    rep.inc("evaluations");
    rep.inc("chain_histories");
    rep.add("empty_volumes_used", empties as u64);
    let res = crate::guard::catch(|| -> Option<(String, String)> {
        for _ in 0..nops {
            if rng.chance(3, 5) {
                let k = match rng.below(5) {
                    0 => 0,
                    1 => 1,
                    2 => n + 10,
                    _ => rng.usize_below(n / 2 + 4),
                };
                let pos = model.position() as usize;
                let mut b1 = vec![0u8; k];
                let mut b2 = vec![0u8; k];
                let r1 = chain.read(&mut b1).unwrap();
                ops.push(format!("read({})->{}", k, r1));
                // the model may read more: only the r1 bytes are compared (a short read is allowed)
                let r2 = model.read(&mut b2[..r1.min(k)]).unwrap();
                if r1 > k || r2 != r1 || b1[..r1] != b2[..r1] {
                    return Some(("chain:read-content".into(), format!("read({}) at {} returned {} bytes that differ from the concatenation", k, pos, r1)));
                }
                if r1 == 0 && k > 0 && pos < n {
                    let class = if empties > 0 { "chain:early-eof:empty-volume" } else { "chain:early-eof" };
                    return Some((class.into(), format!("read({}) at position {} of {} returned 0 (volume sizes {:?})", k, pos, n, sizes)));
                }
                // a read that was cut short at a volume boundary (the next read continues in the next volume)
                if r1 < k && pos + r1 < n && bounds.contains(&(pos + r1)) {
                    crossings += 1;
                }
                let p1 = chain.stream_position().unwrap();
                if p1 != model.position() {
                    return Some(("chain:position".into(), format!("position {} expected {} after read", p1, model.position())));
                }
            } else {
                let pos = model.position() as i64;
                let sf = match rng.below(6) {
                    0 => SeekFrom::Start(rng.usize_below(n + 1) as u64),
                    1 => SeekFrom::End(-(rng.usize_below(n + 1) as i64)),
                    2 => {
                        let t = rng.usize_below(n + 1) as i64;
                        SeekFrom::Current(t - pos)
                    }
                    3 => {
                        // right at / around a volume boundary
                        let b = *rng.pick(&bounds) as i64;
                        let t = (b + rng.below(3) as i64 - 1).clamp(0, n as i64);
                        SeekFrom::Start(t as u64)
                    }
                    4 => SeekFrom::Current(0),
                    _ => SeekFrom::Start(0),
                };
                let r1 = chain.seek(sf);
                let r2 = model.seek(sf);
                ops.push(format!("seek({:?})->{:?}", sf, r1.as_ref().ok()));
                seeks += 1;
                match (r1, r2) {
                    (Ok(a), Ok(b)) => {
                        if a != b {
                            return Some(("chain:seek-result".into(), format!("seek {:?} answered {} expected {}", sf, a, b)));
                        }
                    }
                    (a, b) => return Some(("chain:seek-error".into(), format!("seek {:?}: chain {:?} model {:?}", sf, a.is_ok(), b.is_ok()))),
                }
            }
        }
        // drain
        let pos = model.position() as usize;
        let mut rest = Vec::new();
        let mut buf = [0u8; 37];
        loop {
            let r = chain.read(&mut buf).unwrap();
            if r == 0 {
                break;
            }
            rest.extend_from_slice(&buf[..r]);
            if rest.len() > n + 10 {
                break;
            }
        }
        if rest != data[pos..] {
            let class = if empties > 0 && rest.len() < n - pos { "chain:early-eof:empty-volume" } else { "chain:drain" };
            return Some((class.into(), format!("draining from {} returned {} bytes, expected {} (volume sizes {:?})", pos, rest.len(), n - pos, sizes)));
        }
        None
    });
    rep.add("volume_boundary_crossings", crossings);
    rep.add("chain_seeks", seeks);
    let rp = || json!({"kind":"c20-chain","volume_sizes": sizes, "ops": ops.iter().rev().take(40).rev().collect::<Vec<_>>()});
    match res {
        Err(pi) => rep.violation(&pi.class(), format!("panic at {}:{} {}", pi.file, pi.line, pi.msg), rp()),
        Ok(Some((c, d))) => rep.violation(&c, d, rp()),
        Ok(None) => {
            if crossings > 0 && seeks > 0 {
                rep.inc("nontrivial");
                rep.sig(fnv(&[b'a', sizes.len() as u8, empties as u8, (n / 50) as u8, (crossings.min(10)) as u8, (sizes.first() == Some(&0)) as u8, (sizes.last() == Some(&0)) as u8]));
                if rep.samples.len() < 2 && n < 40 {
                    rep.sample(json!({"part":"chain","volume_sizes": sizes, "first_ops": ops.iter().take(10).collect::<Vec<_>>()}));
                }
            }
        }
    }
}

/// (a2) the stream unzip.rs really opens: the crate's cloneable reader (several clones with own positions, one shared
/// volume chain whose position is cached) compared per clone with the concatenation
fn clone_reader_case(rng: &mut Rng, rep: &mut Report) {
    let n = 1 + match rng.below(4) {
        0 => rng.usize_below(12),
        _ => rng.usize_below(600),
    };
    let data: Vec<u8> = (0..n).map(|i| (i as u32).wrapping_mul(2654435761).rotate_right(11) as u8 ^ (i as u8).wrapping_mul(3)).collect();
    let vols = split_volumes(rng, &data);
    let sizes: Vec<usize> = vols.iter().map(|v| v.len()).collect();
    let chain = SeekableChain::new(vols.into_iter().map(Cursor::new).collect::<Vec<_>>());
    let mut readers = vec![(adlt::utils::cloneable_seekable_reader::verif_cloneable_reader(chain), 0usize)];
    let nops = 10 + rng.usize_below(70);
    let mut ops: Vec<String> = Vec::new();
    let mut short_reads = 0u64;
    let mut behind_short = 0u64;
    let mut clones = 0u64;
    rep.inc("evaluations");
    rep.inc("clone_reader_histories");
    let res = crate::guard::catch(|| -> Option<(String, String)> {
        // one read on clone `ri`, checked against the concatenation; returns (position before, requested, returned)
        fn read_checked<R: Read>(r: &mut (R, usize), ri: usize, k: usize, data: &[u8], ops: &mut Vec<String>) -> Result<(usize, usize, usize), (String, String)> {
            let pos = r.1;
            let mut b = vec![0u8; k];
            let got = r.0.read(&mut b).map_err(|e| ("clone-reader:read-error".to_string(), format!("read({}) at {}: {}", k, pos, e)))?;
            ops.push(format!("r{}.read({})@{}->{}", ri, k, pos, got));
            if got > k || pos + got > data.len() || b[..got] != data[pos..pos + got] {
                return Err(("clone-reader:read-content".into(), format!("clone {} read({}) at {} returned {} bytes that differ from the concatenation", ri, k, pos, got)));
            }
            if got == 0 && k > 0 && pos < data.len() {
                return Err(("clone-reader:early-eof".into(), format!("clone {} read({}) at {} of {} returned 0", ri, k, pos, data.len())));
            }
            r.1 = pos + got;
            Ok((pos, k, got))
        }
        for _ in 0..nops {
            let ri = rng.usize_below(readers.len());
            match rng.below(20) {
                0..=10 => {
                    let k = match rng.below(6) {
                        0 => 0,
                        1 => 1,
                        2 => n + 10,
                        _ => rng.usize_below(n / 2 + 4),
                    };
                    let (pos, k, got) = match read_checked(&mut readers[ri], ri, k, &data, &mut ops) {
                        Ok(x) => x,
                        Err(e) => return Some(e),
                    };
                    if got < k && pos + got < n {
                        short_reads += 1;
                        // the access right behind the range that was asked for (not behind what was delivered), by this or another clone
                        if pos + k <= n && rng.chance(1, 2) {
                            let rj = rng.usize_below(readers.len());
                            let t = pos + k;
                            let sf = if rng.chance(1, 2) { SeekFrom::Start(t as u64) } else { SeekFrom::Current(t as i64 - readers[rj].1 as i64) };
                            match readers[rj].0.seek(sf) {
                                Ok(a) if a == t as u64 => readers[rj].1 = t,
                                other => return Some(("clone-reader:seek-result".into(), format!("clone {} seek {:?} answered {:?} expected {}", rj, sf, other.ok(), t))),
                            }
                            ops.push(format!("r{}.seek({:?})", rj, sf));
                            let k2 = 1 + rng.usize_below(8);
                            if let Err(e) = read_checked(&mut readers[rj], rj, k2, &data, &mut ops) {
                                return Some(e);
                            }
                            behind_short += 1;
                        }
                    }
                }
                11..=16 => {
                    let pos = readers[ri].1 as i64;
                    let t = rng.usize_below(n + 1) as i64;
                    let sf = match rng.below(3) {
                        0 => SeekFrom::Start(t as u64),
                        1 => SeekFrom::End(t - n as i64),
                        _ => SeekFrom::Current(t - pos),
                    };
                    ops.push(format!("r{}.seek({:?})", ri, sf));
                    match readers[ri].0.seek(sf) {
                        Ok(a) if a == t as u64 => readers[ri].1 = t as usize,
                        other => return Some(("clone-reader:seek-result".into(), format!("clone {} seek {:?} answered {:?} expected {}", ri, sf, other.ok(), t))),
                    }
                }
                _ => {
                    if readers.len() < 4 {
                        let c = (readers[ri].0.clone(), readers[ri].1);
                        ops.push(format!("r{}=r{}.clone()", readers.len(), ri));
                        readers.push(c);
                        clones += 1;
                    }
                }
            }
        }
        // drain every clone
        for ri in 0..readers.len() {
            let pos = readers[ri].1;
            let mut rest = Vec::new();
            let mut buf = [0u8; 41];
            loop {
                let r = match readers[ri].0.read(&mut buf) {
                    Ok(r) => r,
                    Err(e) => return Some(("clone-reader:read-error".into(), format!("drain: {}", e))),
                };
                if r == 0 || rest.len() > n + 10 {
                    break;
                }
                rest.extend_from_slice(&buf[..r]);
            }
            if rest != data[pos..] {
                return Some(("clone-reader:drain".into(), format!("draining clone {} from {} returned {} bytes, expected {} (or other bytes; volume sizes {:?})", ri, pos, rest.len(), n - pos, sizes)));
            }
        }
        None
    });
    rep.add("clone_reader_short_reads_at_volume_borders", short_reads);
    rep.add("clone_reader_accesses_right_behind_a_short_read", behind_short);
    rep.add("clone_reader_clones", clones);
    let rp = || json!({"kind":"c20-clone-reader","volume_sizes": sizes, "ops": ops.iter().rev().take(40).rev().collect::<Vec<_>>()});
    match res {
        Err(pi) => rep.violation(&pi.class(), format!("panic at {}:{} {}", pi.file, pi.line, pi.msg), rp()),
        Ok(Some((c, d))) => rep.violation(&c, d, rp()),
        Ok(None) => {
            if short_reads > 0 && clones > 0 {
                rep.inc("nontrivial");
                rep.sig(fnv(&[b'c', sizes.len() as u8, (n / 50) as u8, short_reads.min(10) as u8, behind_short.min(5) as u8, clones as u8]));
            }
        }
    }
}

// ---------------------------------------------------------------- raw zip writer (stored entries)

fn crc32(data: &[u8]) -> u32 {
    let mut table = [0u32; 256];
    for i in 0..256u32 {
        let mut c = i;
        for _ in 0..8 {
            c = if c & 1 != 0 { 0xEDB88320 ^ (c >> 1) } else { c >> 1 };
        }
        table[i as usize] = c;
    }
    let mut c = 0xFFFF_FFFFu32;
    for b in data {
        c = table[((c ^ *b as u32) & 0xff) as usize] ^ (c >> 8);
    }
    c ^ 0xFFFF_FFFF
}

#[derive(Clone, Debug)]
pub struct Member {
    pub name: String,
    pub data: Vec<u8>,
}

pub fn write_zip(members: &[Member]) -> Vec<u8> {
    let mut out = Vec::new();
    let mut central = Vec::new();
    for m in members {
        let offset = out.len() as u32;
        let crc = crc32(&m.data);
        let name = m.name.as_bytes();
        let flags: u16 = 0x0800; // utf-8 names
        let is_dir = m.name.ends_with('/');
        // local header
        out.extend_from_slice(&0x04034b50u32.to_le_bytes());
        out.extend_from_slice(&20u16.to_le_bytes());
        out.extend_from_slice(&flags.to_le_bytes());
        out.extend_from_slice(&0u16.to_le_bytes()); // stored
        out.extend_from_slice(&0u16.to_le_bytes()); // time
        out.extend_from_slice(&0x5821u16.to_le_bytes()); // date
        out.extend_from_slice(&crc.to_le_bytes());
        out.extend_from_slice(&(m.data.len() as u32).to_le_bytes());
        out.extend_from_slice(&(m.data.len() as u32).to_le_bytes());
        out.extend_from_slice(&(name.len() as u16).to_le_bytes());
        out.extend_from_slice(&0u16.to_le_bytes());
        out.extend_from_slice(name);
        out.extend_from_slice(&m.data);
        // central directory entry
        central.extend_from_slice(&0x02014b50u32.to_le_bytes());
        central.extend_from_slice(&0x031eu16.to_le_bytes()); // made by unix
        central.extend_from_slice(&20u16.to_le_bytes());
        central.extend_from_slice(&flags.to_le_bytes());
        central.extend_from_slice(&0u16.to_le_bytes());
        central.extend_from_slice(&0u16.to_le_bytes());
        central.extend_from_slice(&0x5821u16.to_le_bytes());
        central.extend_from_slice(&crc.to_le_bytes());
        central.extend_from_slice(&(m.data.len() as u32).to_le_bytes());
        central.extend_from_slice(&(m.data.len() as u32).to_le_bytes());
        central.extend_from_slice(&(name.len() as u16).to_le_bytes());
        central.extend_from_slice(&0u16.to_le_bytes()); // extra
        central.extend_from_slice(&0u16.to_le_bytes()); // comment
        central.extend_from_slice(&0u16.to_le_bytes()); // disk
        central.extend_from_slice(&0u16.to_le_bytes()); // internal attrs
        let ext: u32 = if is_dir { 0o040755 << 16 | 0x10 } else { 0o100644 << 16 };
        central.extend_from_slice(&ext.to_le_bytes());
        central.extend_from_slice(&offset.to_le_bytes());
        central.extend_from_slice(name);
    }
    let cd_offset = out.len() as u32;
    out.extend_from_slice(&central);
    out.extend_from_slice(&0x06054b50u32.to_le_bytes());
    out.extend_from_slice(&0u16.to_le_bytes());
    out.extend_from_slice(&0u16.to_le_bytes());
    out.extend_from_slice(&(members.len() as u16).to_le_bytes());
    out.extend_from_slice(&(members.len() as u16).to_le_bytes());
    out.extend_from_slice(&(central.len() as u32).to_le_bytes());
    out.extend_from_slice(&cd_offset.to_le_bytes());
    out.extend_from_slice(&0u16.to_le_bytes());
    out
}

// ---------------------------------------------------------------- (b) extraction

/// does the member name lead outside of the directory it is extracted to? (absolute, or `..` escaping)
fn leads_outside(name: &str) -> bool {
    if name.starts_with('/') || name.contains('\0') || name.contains('\\') {
        return true;
    }
    let mut depth: i32 = 0;
    for c in name.split('/') {
        match c {
            "" | "." => {}
            ".." => {
                depth -= 1;
                if depth < 0 {
                    return true;
                }
            }
            _ => depth += 1,
        }
    }
    false
}

fn normalize(p: &Path) -> PathBuf {
    let mut out = PathBuf::new();
    for c in p.components() {
        match c {
            Component::ParentDir => {
                out.pop();
            }
            Component::CurDir => {}
            c => out.push(c.as_os_str()),
        }
    }
    out
}

fn snapshot_dir(dir: &Path, out: &mut BTreeMap<PathBuf, Vec<u8>>) {
    if let Ok(rd) = std::fs::read_dir(dir) {
        for e in rd.flatten() {
            let p = e.path();
            if p.is_dir() {
                snapshot_dir(&p, out);
            } else if let Ok(d) = std::fs::read(&p) {
                out.insert(p, d);
            }
        }
    }
}

/// pattern catalogue: (glob pattern, predicate)
pub const PATTERNS: [&str; 6] = ["**/*", "*.dlt", "a/*", "**/x.bin", "data?.bin", "a/b.dlt"];
fn pattern_matches(i: usize, name: &str) -> bool {
    match i {
        0 => true,
        1 => name.ends_with(".dlt"),
        2 => name.starts_with("a/"),
        3 => name == "x.bin" || name.ends_with("/x.bin"),
        4 => name.len() == 9 && name.starts_with("data") && name.ends_with(".bin"),
        _ => name == "a/b.dlt",
    }
}

fn gen_members(rng: &mut Rng, sandbox: &Path) -> Vec<Member> {
    let tiny = std::env::var("VMON_TINY").is_ok();
    let n = 1 + rng.usize_below(if tiny { 3 } else { 8 });
    let outside_abs = sandbox.join("outside.txt").to_string_lossy().to_string();
    let names: Vec<String> = vec![
        "a.dlt".into(),
        "a/b.dlt".into(),
        "a/c/d.dlt".into(),
        "x.bin".into(),
        "a/x.bin".into(),
        "data1.bin".into(),
        "dataX.bin".into(),
        "empty.dlt".into(),
        "a/".into(),
        "dir/sub/".into(),
        "../outside.txt".into(),
        "../evil.dlt".into(),
        "a/../../evil2.dlt".into(),
        "a/../inside.dlt".into(),
        outside_abs,
        "/abs_evil.dlt".into(),
        "ünï/cödé ✓.dlt".into(),
        "sp ace/we ird[1].dlt".into(),
        "./dot.dlt".into(),
        // aliases: different member names that resolve to the same file (the later one overwrites the earlier one)
        "dot.dlt".into(),
        "a/./b.dlt".into(),
        "a/c/../b.dlt".into(),
        "inside.dlt".into(),
        // names that differ from the catalogue's patterns only in letter case (patterns are case sensitive)
        "UPPER.DLT".into(),
        "A/b.dlt".into(),
        "a/B.DLT".into(),
        "X.BIN".into(),
        "DATA1.BIN".into(),
    ];
    let mut v = Vec::new();
    for _ in 0..n {
        let name = rng.pick(&names).clone();
        let data = if name.ends_with('/') || name.starts_with("empty") {
            vec![]
        } else {
            let l = match rng.below(4) {
                0 => 0,
                1 => 1 + rng.usize_below(20),
                2 if !tiny => 65536 + rng.usize_below(100), // larger than the 64 KiB copy buffer
                _ if tiny => rng.usize_below(200),
                _ => rng.usize_below(3000),
            };
            rng.bytes(l)
        };
        v.push(Member { name, data });
    }
    v
}

fn extraction_case(rng: &mut Rng, rep: &mut Report, use_extract_archives: bool) {
    let sandbox = match tempfile::tempdir() {
        Ok(d) => d,
        Err(_) => {
            rep.inc("inconclusive_tempdir");
            return;
        }
    };
    let sb = sandbox.path();
    std::fs::write(sb.join("outside.txt"), b"PRE-EXISTING outside content").unwrap();
    let members = gen_members(rng, sb);
    let zip = write_zip(&members);
    let hostile = members.iter().any(|m| leads_outside(&m.name));
    rep.inc("evaluations");
    rep.inc("archives");
    rep.add("archive_members", members.len() as u64);
    if hostile {
        rep.inc("archives_with_hostile_names");
    }
    // last member of a name wins on disk; any member's content is accepted for duplicates
    let mut by_name: HashMap<String, Vec<&Member>> = HashMap::new();
    for m in &members {
        by_name.entry(m.name.clone()).or_default().push(m);
    }
    let pat_idx = rng.usize_below(PATTERNS.len());
    let rp = || json!({"kind":"c20-extract","members": members.iter().map(|m| json!([m.name, m.data.len()])).collect::<Vec<_>>(), "pattern": PATTERNS[pat_idx], "via_extract_archives": use_extract_archives});

    let before: BTreeMap<PathBuf, Vec<u8>> = {
        let mut b = BTreeMap::new();
        snapshot_dir(sb, &mut b);
        b
    };
    let shall_cancel = Arc::new(AtomicBool::new(false));
    let (target, reported): (PathBuf, Vec<PathBuf>) = if use_extract_archives {
        // volumes on disk
        let multi = rng.chance(1, 2);
        let arch_dir = sb.join("arch");
        std::fs::create_dir_all(&arch_dir).unwrap();
        let first = if multi {
            let k = 2 + rng.usize_below(3);
            let mut cuts: Vec<usize> = (0..k - 1).map(|_| rng.usize_below(zip.len() + 1)).collect();
            cuts.sort_unstable();
            let mut prev = 0;
            for (i, c) in cuts.iter().chain([zip.len()].iter()).enumerate() {
                std::fs::write(arch_dir.join(format!("t.zip.{:03}", i + 1)), &zip[prev..*c]).unwrap();
                prev = *c;
            }
            rep.inc("multi_volume_archives_on_disk");
            arch_dir.join("t.zip.001")
        } else {
            std::fs::write(arch_dir.join("t.zip"), &zip).unwrap();
            arch_dir.join("t.zip")
        };
        let arg = if pat_idx == 0 && rng.chance(1, 2) { first.to_string_lossy().to_string() } else { format!("{}!/{}", first.to_string_lossy(), PATTERNS[pat_idx]) };
        let log = slog::Logger::root(slog::Discard, slog::o!());
        let mut temp_dirs = vec![];
        let res = crate::guard::catch(|| extract_archives(arg.clone(), &mut temp_dirs, &shall_cancel, &log));
        let res = match res {
            Ok(r) => r,
            Err(pi) => {
                rep.violation(&pi.class(), format!("panic at {}:{} {}", pi.file, pi.line, pi.msg), rp());
                return;
            }
        };
        if temp_dirs.is_empty() {
            // nothing extracted: must mean nothing to extract
            let exp_any = members.iter().any(|m| pattern_matches(pat_idx, &m.name) && !m.name.ends_with('/'));
            if res == vec![arg.clone()] {
                rep.inc("extract_archives_failed_gracefully");
                return;
            }
            if !res.is_empty() || (exp_any && members.iter().any(|m| pattern_matches(pat_idx, &m.name) && !m.name.ends_with('/') && !leads_outside(&m.name))) {
                rep.violation("extract:nothing-extracted", format!("extract_archives({}) returned {:?} and created no temp dir", arg, res), rp());
            }
            return;
        }
        let tdir = temp_dirs[0].1.path().to_path_buf();
        let reported: Vec<PathBuf> = res.iter().map(PathBuf::from).collect();
        // check while the temp dir is alive
        let r = check_extraction(rep, &members, &by_name, pat_idx, &tdir, &reported, true, sb, &before, &HashMap::new(), &rp);
        drop(temp_dirs);
        let _ = r;
        return;
    } else {
        let target = sb.join("t");
        std::fs::create_dir_all(&target).unwrap();
        // sometimes a file exists already in the target dir (it is then skipped but reported)
        let filter: Option<Vec<String>> = if rng.chance(2, 3) {
            Some(members.iter().filter(|m| pattern_matches(pat_idx, &m.name) && !m.name.ends_with('/')).map(|m| m.name.clone()).collect())
        } else {
            None
        };
        // 1/3 of the filtered extractions rename some requested members (as extract_archives does for single member archives):
        // stored and reported under the new name
        let mut renames: HashMap<String, String> = HashMap::new();
        if let Some(names) = &filter {
            if rng.chance(1, 3) {
                for (k, name) in names.iter().enumerate() {
                    let unique = members.iter().filter(|m| normalize(Path::new(&m.name)) == normalize(Path::new(name))).count() == 1;
                    let plain = !leads_outside(name) && normalize(Path::new(name)).to_string_lossy() == name.as_str();
                    if unique && plain && rng.chance(1, 2) {
                        renames.insert(name.clone(), format!("__renamed__/r{}.bin", k));
                    }
                }
                if !renames.is_empty() {
                    rep.inc("extractions_with_a_rename_map");
                }
            }
        }
        // a re-used target directory: some of the requested members are there already (left by an earlier extraction of
        // the same archive with a narrower pattern); they are skipped but reported, the others are still extracted
        if let Some(names) = &filter {
            if rng.chance(1, 3) {
                let mut pre = 0;
                for name in names {
                    let unique = members.iter().filter(|m| normalize(Path::new(&m.name)) == normalize(Path::new(name))).count() == 1;
                    if unique && !leads_outside(name) && rng.chance(1, 3) {
                        let p = target.join(renames.get(name).unwrap_or(name));
                        if renames.contains_key(name) {
                            rep.inc("renamed_members_already_present");
                        }
                        if let Some(parent) = p.parent() {
                            let _ = std::fs::create_dir_all(parent);
                        }
                        if let Some(m) = members.iter().find(|m| &m.name == name) {
                            if std::fs::write(&p, &m.data).is_ok() {
                                pre += 1;
                            }
                        }
                    }
                }
                if pre > 0 {
                    rep.inc("extractions_into_a_reused_directory");
                }
            }
        }
        let vols = split_volumes(rng, &zip);
        let chain = SeekableChain::new(vols.into_iter().map(Cursor::new).collect::<Vec<_>>());
        let res = crate::guard::catch(|| extract_to_dir(chain, &target, filter.clone(), &renames, &shall_cancel));
        match res {
            Err(pi) => {
                rep.violation(&pi.class(), format!("panic at {}:{} {}", pi.file, pi.line, pi.msg), rp());
                return;
            }
            Ok(Err(e)) => {
                rep.violation("extract:error", format!("extract_to_dir failed on a valid archive: {}", e), rp());
                return;
            }
            Ok(Ok(v)) => {
                let all = filter.is_none();
                let reported: Vec<PathBuf> = v.iter().map(|p| target.join(p)).collect();
                let _ = check_extraction(rep, &members, &by_name, if all { 0 } else { pat_idx }, &target, &reported, false, sb, &before, &renames, &rp);
                (target, reported)
            }
        }
    };
    let _ = (target, reported);
}

#[allow(clippy::too_many_arguments)]
fn check_extraction(
    rep: &mut Report,
    members: &[Member],
    by_name: &HashMap<String, Vec<&Member>>,
    pat_idx: usize,
    tdir: &Path,
    reported: &[PathBuf],
    reported_abs: bool,
    sandbox: &Path,
    before: &BTreeMap<PathBuf, Vec<u8>>,
    renames: &HashMap<String, String>,
    rp: &dyn Fn() -> serde_json::Value,
) -> bool {
    let _ = reported_abs;
    // members extracted under another name (rename map): reported and stored under the new name, content of the member
    let inverse: HashMap<&str, &str> = renames.iter().map(|(a, b)| (b.as_str(), a.as_str())).collect();
    let tnorm = normalize(tdir);
    // expected set of names
    let mut expected: Vec<String> = members.iter().filter(|m| pattern_matches(pat_idx, &m.name) && !m.name.ends_with('/') && !leads_outside(&m.name)).map(|m| m.name.clone()).collect();
    expected.sort();
    expected.dedup();
    let mut got_names: Vec<String> = Vec::new();
    for p in reported {
        let n = normalize(p);
        if !n.starts_with(&tnorm) {
            let pre_existing = before.contains_key(&n) || n.exists();
            let class = if pre_existing { "extract:reported-outside-path:pre-existing-file-not-written" } else { "extract:reported-outside-path" };
            rep.violation(class, format!("reported path {} is outside of the target directory {}", p.display(), tdir.display()), rp());
            return false;
        }
        let rel = p.strip_prefix(tdir).map(|r| r.to_string_lossy().to_string()).unwrap_or_default();
        let rel = match inverse.get(rel.as_str()) {
            Some(orig) => {
                rep.inc("renamed_members_reported_under_the_new_name");
                orig.to_string()
            }
            None => rel,
        };
        // content
        let content = match std::fs::read(p) {
            Ok(c) => c,
            Err(e) => {
                rep.violation("extract:reported-but-missing", format!("reported path {} cannot be read: {}", p.display(), e), rp());
                return false;
            }
        };
        // which member? by reported relative name (as is) or normalised
        let cands: Vec<&Vec<&Member>> = by_name.iter().filter(|(k, _)| **k == rel || normalize(Path::new(k.as_str())) == normalize(Path::new(&rel))).map(|(_, v)| v).collect();
        if cands.is_empty() {
            rep.violation("extract:reported-unknown-member", format!("reported {} does not correspond to an archive member", rel), rp());
            return false;
        }
        if !cands.iter().any(|ms| ms.iter().any(|m| m.data == content)) {
            rep.violation("extract:content-differs", format!("content of {} ({} bytes) is not the content of the archive member", rel, content.len()), rp());
            return false;
        }
        rep.inc("members_extracted_and_compared");
        got_names.push(rel);
    }
    let mut got_norm: Vec<PathBuf> = got_names.iter().map(|g| normalize(Path::new(g))).collect();
    got_norm.sort();
    got_norm.dedup();
    let mut exp_norm: Vec<PathBuf> = expected.iter().map(|g| normalize(Path::new(g))).collect();
    exp_norm.sort();
    exp_norm.dedup();
    if got_norm != exp_norm {
        rep.violation("extract:reported-set", format!("reported {:?}, expected exactly the matching members that do not lead outside: {:?}", got_norm, exp_norm), rp());
        return false;
    }
    rep.add("members_refused_or_not_matching", (members.len() - expected.len().min(members.len())) as u64);
    // nothing changed outside of the target dir
    let mut after = BTreeMap::new();
    snapshot_dir(sandbox, &mut after);
    for (p, d) in before {
        match after.get(p) {
            Some(d2) if d2 == d => {}
            _ => {
                rep.violation("extract:pre-existing-file-changed", format!("{} was changed or removed", p.display()), rp());
                return false;
            }
        }
    }
    for p in after.keys() {
        if !before.contains_key(p) && !normalize(p).starts_with(&tnorm) && !p.starts_with(sandbox.join("arch")) {
            rep.violation("extract:file-created-outside", format!("{} was created outside of the target directory", p.display()), rp());
            return false;
        }
    }
    true
}

pub fn run(p: &Params) -> Report {
    let mut rep = Report::new("C20");
    if p.replay.is_some() {
        rep.note("C20 replay files carry volume sizes + operation tail (chain) or member list + pattern (extraction)".into());
        return rep;
    }
    let tiny = p.has("tiny");
    let only_extract = p.has("extract_only");
    let mut i = 0u64;
    while (p.cases == 0 || i < p.cases) && !p.time_up() {
        let mut rng = Rng::new(p.case_seed(i) ^ 0xC20);
        i += 1;
        if only_extract || (!tiny && i % 40 == 0) {
            let via = i % 80 == 0 && !only_extract;
            let v0 = rep.violations.len();
            extraction_case(&mut rng, &mut rep, via);
            if rep.violations.len() == v0 {
                rep.inc("nontrivial_archives");
                rep.sig(fnv(&[b'x', (i % 251) as u8, via as u8]) ^ rng.next_u64() % 4096);
            }
        } else if i % 4 == 1 {
            clone_reader_case(&mut rng, &mut rep);
        } else {
            chain_case(&mut rng, &mut rep);
        }
    }
    // the listing works on the repository's multi volume example too (anchor to real data)
    if p.shard == 0 && !tiny {
        let mut files = vec![];
        for k in 1..=7 {
            if let Ok(f) = std::fs::File::open(format!("/repo/tests/test_volume10k.zip.{:03}", k)) {
                files.push(f);
            }
        }
        if files.len() == 7 {
            let chain = SeekableChain::new(files);
            match list_archive_contents(chain) {
                Ok(v) => rep.add("repo_multi_volume_example_members_listed", v.len() as u64),
                Err(e) => rep.violation("extract:repo-example-listing", format!("{}", e), json!({"file":"tests/test_volume10k.zip.00x"})),
            }
        }
    }
    rep
}
