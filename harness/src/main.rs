use vmon::report::{Params, Report};

#[global_allocator]
static GLOBAL: vmon::c03::CountingAlloc = vmon::c03::CountingAlloc;

fn usage() -> ! {
    eprintln!("usage: vmon <prop> [--seed N] [--shard I] [--of N] [--tier quick|thorough] [--cases N] [--secs S] --out FILE [--replay FILE] [key=value|flag ...]");
    std::process::exit(2)
}

fn main() {
    let args: Vec<String> = std::env::args().collect();
    if args.len() < 2 {
        usage();
    }
    let prop = args[1].to_lowercase();
    let mut p = Params {
        seed: 1,
        shard: 0,
        of: 1,
        thorough: false,
        cases: 0,
        secs: 10.0,
        out: String::new(),
        replay: None,
        extra: vec![],
        start: std::time::Instant::now(),
    };
    let mut i = 2;
    while i < args.len() {
        let a = &args[i];
        let mut next = || {
            i += 1;
            args.get(i).cloned().unwrap_or_else(|| usage())
        };
        match a.as_str() {
            "--seed" => p.seed = next().parse().unwrap_or_else(|_| usage()),
            "--shard" => p.shard = next().parse().unwrap_or_else(|_| usage()),
            "--of" => p.of = next().parse().unwrap_or_else(|_| usage()),
            "--tier" => p.thorough = next() == "thorough",
            "--cases" => p.cases = next().parse().unwrap_or_else(|_| usage()),
            "--secs" => p.secs = next().parse().unwrap_or_else(|_| usage()),
            "--out" => p.out = next(),
            "--replay" => p.replay = Some(next()),
            _ => p.extra.push(a.clone()),
        }
        i += 1;
    }
    vmon::guard::install_hook();
    let rep: Report = match prop.as_str() {
        "c01" => vmon::c01::run(&p),
        "c02" => vmon::c02::run(&p),
        "c03" => vmon::c03::run(&p),
        "c04" => vmon::c04::run(&p),
        "c05" => vmon::lc::run_c05(&p),
        "c06" => vmon::c06::run(&p),
        "c07" => vmon::lc::run_c07(&p),
        "c08" => vmon::lc::run_c08(&p),
        "c09" => vmon::c09::run(&p),
        "c10" => vmon::c10::run(&p),
        "c11" => vmon::filt::run_c11(&p),
        "c13" => vmon::c13::run(&p),
        "c14" => vmon::c14::run(&p),
        "c15" => vmon::c15::run(&p),
        "c16" => vmon::c16::run(&p),
        "c17" => vmon::c17::run(&p),
        "c18" => vmon::c18::run(&p),
        "c19" => vmon::c19::run(&p),
        "c20" => vmon::c20::run(&p),
        "c12" => vmon::filt::run_c12(&p),
        _ => {
            eprintln!("unknown property {}", prop);
            std::process::exit(2)
        }
    };
    let mut rep = rep;
    rep.add("wall_ms", p.start.elapsed().as_millis() as u64);
    if p.out.is_empty() {
        println!("{}", serde_json::to_string_pretty(&rep.to_json()).unwrap());
    } else {
        rep.write(&p.out);
    }
}
