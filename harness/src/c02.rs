//! C02 export fidelity: write/parse round trip and normal form
use crate::c01::{gen_case, run_reader};
use crate::gen::*;
use crate::refdlt::*;
use crate::report::*;
use crate::rng::*;
use adlt::dlt::{parse_dlt_with_storage_header, DltMessage};
use adlt::utils::DltMessageIterator;
use serde_json::json;

fn shape_of(m: &DltMessage) -> u8 {
    m.standard_header.htyp & 0x1f
}

/// compare the fields the statement lists
fn same_exported(a: &DltMessage, b: &DltMessage) -> Option<String> {
    if a.ecu != b.ecu {
        return Some(format!("ecu {:?} vs {:?}", a.ecu, b.ecu));
    }
    if a.reception_time_us != b.reception_time_us {
        return Some(format!("reception_time {} vs {}", a.reception_time_us, b.reception_time_us));
    }
    if a.timestamp_dms != b.timestamp_dms {
        return Some(format!("timestamp {} vs {}", a.timestamp_dms, b.timestamp_dms));
    }
    if a.standard_header.has_timestamp() != b.standard_header.has_timestamp() {
        return Some("timestamp-presence".into());
    }
    if a.standard_header.mcnt != b.standard_header.mcnt {
        return Some("mcnt".into());
    }
    if a.standard_header.is_big_endian() != b.standard_header.is_big_endian() {
        return Some("byte-order".into());
    }
    if a.extended_header != b.extended_header {
        return Some(format!("extended_header {:?} vs {:?}", a.extended_header, b.extended_header));
    }
    if a.payload != b.payload {
        return Some(format!("payload (len {} vs {})", a.payload.len(), b.payload.len()));
    }
    None
}

/// the per message oracle. returns (class, detail)
pub fn check_msg(m: &DltMessage) -> Result<Vec<u8>, (String, String)> {
    let mut w1 = Vec::with_capacity(m.payload.len() + 48);
    m.to_write(&mut w1).map_err(|e| ("write-error".to_string(), format!("{}", e)))?;
    let (consumed, m2) = match parse_dlt_with_storage_header(m.index, &w1) {
        Ok(r) => r,
        Err(e) => return Err(("reparse-failed".into(), format!("{} (written {} bytes)", e, w1.len()))),
    };
    if consumed != w1.len() {
        return Err(("consumed".into(), format!("consumed {} of {} written", consumed, w1.len())));
    }
    if let Some(d) = same_exported(m, &m2) {
        let f = d.split(' ').next().unwrap_or("?").to_string();
        return Err((format!("roundtrip:{}", f), d));
    }
    if m2.index != m.index {
        return Err(("roundtrip:index".into(), format!("{} vs {}", m2.index, m.index)));
    }
    let mut w2 = Vec::with_capacity(w1.len());
    m2.to_write(&mut w2).map_err(|e| ("write-error".to_string(), format!("{}", e)))?;
    if w1 != w2 {
        return Err(("normal-form".into(), format!("second write differs: {} vs {} bytes", w1.len(), w2.len())));
    }
    // the independent decoder must accept the bytes and agree
    match decode_one(&w1, false, 0) {
        Err(e) => return Err(("ref-decode".into(), format!("{:?}", e))),
        Ok((r, c)) => {
            if c != w1.len() {
                return Err(("ref-decode:len".into(), format!("ref consumed {} of {}", c, w1.len())));
            }
            let exp_secs = (m.reception_time_us / 1_000_000) as u32;
            let exp_micros = (m.reception_time_us % 1_000_000) as u32;
            let ok = r.secs == exp_secs
                && r.micros == exp_micros
                && &r.storage_ecu == m.ecu.as_buf()
                && r.mcnt == m.standard_header.mcnt
                && r.msbf == m.standard_header.is_big_endian()
                && r.timestamp == if m.standard_header.has_timestamp() { Some(m.timestamp_dms) } else { None }
                && r.payload == m.payload
                && match (&r.ext, &m.extended_header) {
                    (None, None) => true,
                    (Some(x), Some(e)) => x.msin == e.verb_mstp_mtin && x.noar == e.noar && &x.apid == e.apid.as_buf() && &x.ctid == e.ctid.as_buf(),
                    _ => false,
                };
            if !ok {
                return Err(("ref-decode:fields".into(), format!("reference decoder sees {:?}", RefMsg { payload: vec![], ..r })));
            }
        }
    }
    Ok(w1)
}

pub fn run(p: &Params) -> Report {
    let mut rep = Report::new("C02");
    let mut i = 0u64;
    let mut p2 = p.clone();
    p2.seed = p.seed ^ 0xC02;
    let bin = p.val("adlt_bin");
    let bin_every: u64 = p.val("bin_every").and_then(|v| v.parse().ok()).unwrap_or(97);
    while (p.cases == 0 || i < p.cases) && !p.time_up() {
        // reuse the C01 generator but with valid micros
        let mut rng = Rng::new(p2.case_seed(i));
        let mut o = StreamOpts::default();
        o.msg.micros_valid = true;
        o.msg.huge_per_mille = if p.thorough { 40 } else { 20 };
        let serial;
        // with a binary: every (4*bin_every)-th case is a file of many near-maximal messages (> the 512 KiB read buffer of the
        // file readers), exported through the binary below
        let big_file = bin.is_some() && (i + 1) % (4 * bin_every) == 0;
        if big_file {
            o.msg.huge_per_mille = 850;
            o.max_msgs = 40;
            o.huge_garbage = false;
        }
        if big_file {
            serial = false;
        } else if i < 16 {
            serial = i >= 8;
            let base = ((i % 8) * 4) as u8;
            o.force_shapes = vec![base, base + 1, base + 2, base + 3];
        } else {
            serial = rng.chance(1, 3);
        }
        if let Some(b) = &bin {
            if (i + 1) % (2 * bin_every) == bin_every {
                binary_export_lifecycle_scenario(&mut rep, b, &mut rng, i);
            }
        }
        let _ = gen_case; // (same family as C01)
        let c = gen_stream(&mut rng, serial, &o);
        i += 1;
        rep.inc("evaluations");
        let res = match crate::guard::catch(|| run_reader(&c, 0, 0)) {
            Ok((r, _)) => r,
            Err(pi) => {
                rep.violation(&pi.class(), format!("panic at {}:{} {}", pi.file, pi.line, pi.msg), crate::c01::case_replay(&c, 0, "cursor"));
                continue;
            }
        };
        // a message whose own bytes contain a frame marker (payload of a file transfer carrying a DLT file, ids):
        // C02 has no "no embedded marker" precondition for the message level round trip
        if let Some(rm) = c.msgs.get(rng.usize_below(c.msgs.len().max(1))) {
            embedded_marker_case(&mut rep, &mut rng, rm, &c);
        }
        // note: if the reader lost messages that is C01's business; we take what was parsed
        let mut export = Vec::new();
        let mut ok = true;
        for m in &res.msgs {
            rep.inc("messages");
            let r = crate::guard::catch(|| check_msg(m));
            let r = match r {
                Ok(r) => r,
                Err(pi) => Err((pi.class(), format!("panic at {}:{} {}", pi.file, pi.line, pi.msg))),
            };
            match r {
                Ok(w1) => {
                    rep.add("bytes_written", w1.len() as u64);
                    rep.max("max_payload", m.payload.len() as u64);
                    let orig = m.standard_header.htyp;
                    if orig & (WEID | WSID | MSBF) != 0 || m.payload.len() > 60000 {
                        rep.inc("nontrivial");
                        let pb = match m.payload.len() { 0 => 0, 1..=9 => 1, 10..=255 => 2, 256..=59999 => 3, _ => 4 };
                        rep.sig(((c.serial as u64) << 16) | ((shape_of(m) as u64) << 8) | pb as u64);
                    }
                    if rep.want_sample() && w1.len() < 60 && orig & (WEID | WSID) != 0 {
                        rep.sample(json!({"source_framing": if c.serial {"serial"} else {"storage"}, "orig_htyp": orig, "written_hex": hex(&w1)}));
                    }
                    export.extend_from_slice(&w1);
                }
                Err((class, detail)) => {
                    ok = false;
                    rep.violation(&class, format!("msg index {}: {}", m.index, detail), json!({"kind":"c02","msg": crate::c01::case_replay(&c, 0, "cursor"), "index": m.index}));
                    break;
                }
            }
        }
        if !ok || res.msgs.is_empty() {
            continue;
        }
        // file level: the export re-reads to the same messages in order; exporting the export is byte identical
        let starts_ok = {
            // precondition of C01 on the export: markers only at message starts
            let mut starts = std::collections::HashSet::new();
            let mut pos = 0;
            let mut okk = true;
            while pos < export.len() {
                starts.insert(pos);
                match decode_one(&export[pos..], false, pos) {
                    Ok((_, cns)) => pos += cns,
                    Err(_) => {
                        okk = false;
                        break;
                    }
                }
            }
            okk && find_markers(&export).iter().all(|p| starts.contains(p))
        };
        if !starts_ok {
            rep.inc("file_level_skipped_embedded_marker");
            continue;
        }
        rep.inc("files_compared");
        let reread: Vec<DltMessage> = match crate::guard::catch(|| DltMessageIterator::new(0, std::io::Cursor::new(&export[..])).collect()) {
            Ok(v) => v,
            Err(pi) => {
                rep.violation(&pi.class(), format!("panic at {}:{} {}", pi.file, pi.line, pi.msg), json!({"kind":"c02-file","export_hex": hex(&export)}));
                continue;
            }
        };
        if reread.len() != res.msgs.len() {
            rep.violation("file:count", format!("export of {} messages re-reads as {}", res.msgs.len(), reread.len()), json!({"kind":"c02-file","export_hex": hex(&export)}));
            continue;
        }
        let mut export2 = Vec::with_capacity(export.len());
        let mut bad = None;
        for (k, (a, b)) in res.msgs.iter().zip(reread.iter()).enumerate() {
            if let Some(d) = same_exported(a, b) {
                bad = Some(format!("msg {}: {}", k, d));
                break;
            }
            b.to_write(&mut export2).unwrap();
        }
        if let Some(d) = bad {
            rep.violation("file:order-or-content", d, json!({"kind":"c02-file","export_hex": hex(&export)}));
        } else if export2 != export {
            rep.violation("file:export-of-export", format!("{} vs {} bytes", export2.len(), export.len()), json!({"kind":"c02-file","export_hex": hex(&export)}));
        } else if let Some(bin) = &bin {
            // the front door: `adlt convert <file> -o <out>` must write exactly these bytes, and exporting
            // that export must be byte identical
            if i % bin_every == 0 && !c.serial && c.bytes.len() < 4_000_000 {
                if c.bytes.len() > 600_000 {
                    rep.inc("bin_exports_of_files_larger_than_the_read_buffer");
                }
                binary_export(&mut rep, bin, &c, &export);
            }
        }
    }
    rep
}

fn run_convert(bin: &str, input: &std::path::Path, output: &std::path::Path) -> Option<(bool, String)> {
    let child = std::process::Command::new(bin)
        .arg("convert")
        .arg(input)
        .arg("-o")
        .arg(output)
        .env("TZ", "UTC")
        .stdin(std::process::Stdio::null())
        .stdout(std::process::Stdio::null())
        .stderr(std::process::Stdio::piped())
        .spawn()
        .ok()?;
    let out = child.wait_with_output().ok()?;
    Some((out.status.success(), String::from_utf8_lossy(&out.stderr).chars().take(400).collect()))
}

/// `adlt convert <input> -o <fifo>` with tiny channels; the reader takes the first bytes, stalls, then takes the rest
fn run_convert_stalled_fifo(bin: &str, input: &std::path::Path, fifo: &std::path::Path) -> Option<(bool, String, Vec<u8>)> {
    use std::io::Read;
    use std::os::unix::fs::OpenOptionsExt;
    if !std::process::Command::new("mkfifo").arg(fifo).status().ok()?.success() {
        return None;
    }
    let fifo_r = fifo.to_path_buf();
    let reader = std::thread::spawn(move || -> Vec<u8> {
        let mut v = Vec::new();
        if let Ok(mut f) = std::fs::File::open(&fifo_r) {
            let mut first = [0u8; 4096];
            if let Ok(k) = f.read(&mut first) {
                v.extend_from_slice(&first[..k]);
                if k > 0 {
                    std::thread::sleep(std::time::Duration::from_millis(1600));
                    let _ = f.read_to_end(&mut v);
                }
            }
        }
        v
    });
    let child = std::process::Command::new(bin)
        .arg("convert")
        .arg(input)
        .arg("-o")
        .arg(fifo)
        .env("TZ", "UTC")
        .env("ADLT_VERIF_CHAN_CAP", "2")
        .stdin(std::process::Stdio::null())
        .stdout(std::process::Stdio::null())
        .stderr(std::process::Stdio::piped())
        .spawn();
    let out = child.and_then(|c| c.wait_with_output());
    // release a reader that still waits for a writer (the child never opened the fifo): a non blocking open for writing, dropped at once
    let _ = std::fs::OpenOptions::new().write(true).custom_flags(0o4000).open(fifo);
    let bytes = reader.join().ok()?;
    let out = out.ok()?;
    Some((out.status.success(), String::from_utf8_lossy(&out.stderr).chars().take(400).collect(), bytes))
}

/// one message of the stream with a marker (DLT\x01 / DLS\x01) written into its payload or ids: obtain it by parsing it
/// alone (storage framing), then the per message oracle
fn embedded_marker_case(rep: &mut Report, rng: &mut Rng, rm: &RefMsg, c: &StreamCase) {
    let mut m = rm.clone();
    m.serial = false;
    let marker: [u8; 4] = if rng.chance(2, 3) { *b"DLT\x01" } else { *b"DLS\x01" };
    let place = rng.below(8);
    let mut placed = "payload";
    if place == 0 && m.ext.is_some() {
        m.ext.as_mut().unwrap().apid = marker;
        placed = "apid";
    } else if place == 1 && m.ext.is_some() {
        m.ext.as_mut().unwrap().ctid = marker;
        placed = "ctid";
    } else if place == 2 && m.std_ecu.is_some() {
        m.std_ecu = Some(marker);
        placed = "ecu";
    } else if m.payload.len() >= 4 {
        let at = match rng.below(4) {
            0 => 0,
            1 => m.payload.len() - 4,
            _ => rng.usize_below(m.payload.len() - 3),
        };
        m.payload[at..at + 4].copy_from_slice(&marker);
    } else {
        m.payload = marker.to_vec();
    }
    let bytes = m.encode();
    // obtained from a well-formed stream: the message is followed by the next message of the stream
    let mut stream = bytes.clone();
    let mut follower = rm.clone();
    follower.serial = false;
    follower.encode_into(&mut stream, None);
    let parsed = match crate::guard::catch(|| parse_dlt_with_storage_header(7, &stream)) {
        Ok(Ok((consumed, pm))) if consumed == bytes.len() => pm,
        Ok(_) => {
            // the parser of the *input* side does not hand this message out (framing is C01's/C04's business)
            rep.inc("embedded_marker_not_obtained");
            return;
        }
        Err(pi) => {
            rep.violation(&pi.class(), format!("panic at {}:{} {}", pi.file, pi.line, pi.msg), json!({"kind":"c02-embedded","bytes_hex": hex(&bytes)}));
            return;
        }
    };
    rep.inc("embedded_marker_msgs");
    rep.inc(&format!("embedded_marker_in_{}", placed));
    let r = match crate::guard::catch(|| check_msg(&parsed)) {
        Ok(r) => r,
        Err(pi) => Err((pi.class(), format!("panic at {}:{} {}", pi.file, pi.line, pi.msg))),
    };
    if let Err((class, detail)) = r {
        rep.violation(&format!("embedded-marker:{}", class), format!("message with {:?} in its {}: {}", String::from_utf8_lossy(&marker[..3]), placed, detail), json!({"kind":"c02-embedded","bytes_hex": hex(&bytes), "stream": crate::c01::case_replay(c, 0, "cursor")}));
    }
}

/// export through the real binary: file -> a.dlt -> b.dlt; a == expected export (to_write of every parsed message), b == a
/// a lifecycle scenario (several ECUs, boots, merges: the lifecycle stage buffers and releases the messages on all its
/// paths) written in normal form: the export has to be byte identical to the input
fn binary_export_lifecycle_scenario(rep: &mut Report, bin: &str, rng: &mut Rng, case_no: u64) {
    let gen = |rng: &mut Rng| match rng.below(3) {
        0 => crate::lcgen::gen_targeted(rng),
        1 => crate::lcgen::gen_scenario(rng, true, 300),
        _ => crate::lcgen::gen_scenario(rng, false, 300),
    };
    // census guided selection (as in C13): prefer a trace on which the detector flushes its buffer after a merge while
    // messages of several ECUs are queued - the release paths on which the order is at stake
    let mut s = gen(rng);
    for _ in 0..40 {
        let r = crate::c06::run_case(&[crate::lcgen::to_dlt(&s, case_no as u32)], crate::c06::Pacing::None, false, 0);
        let c = |p: adlt::verif::Point| r.census[p as usize];
        if s.n_ecus >= 2 && c(adlt::verif::Point::LcOutMergeFlush) > 0 && c(adlt::verif::Point::LcOutConfirmOther) > 0 {
            rep.inc("bin_exports_of_census_selected_scenarios");
            break;
        }
        s = gen(rng);
    }
    let mut bytes = Vec::new();
    for m in crate::lcgen::to_dlt(&s, case_no as u32) {
        let _ = m.to_write(&mut bytes);
    }
    if bytes.is_empty() {
        return;
    }
    let c = StreamCase { serial: false, bytes: bytes.clone(), msgs: vec![], offsets: vec![], garbage: vec![], repairs: 0 };
    rep.inc("bin_exports_of_lifecycle_scenarios");
    binary_export(rep, bin, &c, &bytes);
}

fn binary_export(rep: &mut Report, bin: &str, c: &StreamCase, export: &[u8]) {
    let dir = match tempfile::tempdir() {
        Ok(d) => d,
        Err(_) => {
            rep.inc("inconclusive_tempdir");
            return;
        }
    };
    let f = dir.path().join("in.dlt");
    let a = dir.path().join("a.dlt");
    let b = dir.path().join("b.dlt");
    if std::fs::write(&f, &c.bytes).is_err() {
        rep.inc("inconclusive_tempdir");
        return;
    }
    let replay = || json!({"kind":"c02-bin","msg": crate::c01::case_replay(c, 0, "cursor")});
    match run_convert(bin, &f, &a) {
        None => {
            rep.inc("inconclusive_bin_spawn");
            return;
        }
        Some((false, err)) => {
            let class = if err.contains("panicked at") { "bin:export-panicked" } else { "bin:export-failed" };
            rep.violation(class, format!("adlt convert in.dlt -o a.dlt failed: {}", err), replay());
            return;
        }
        Some((true, _)) => {}
    }
    let a_bytes = std::fs::read(&a).unwrap_or_default();
    rep.inc("bin_exports");
    if a_bytes != export {
        // locate the first differing message for the detail
        let at = a_bytes.iter().zip(export.iter()).position(|(x, y)| x != y).unwrap_or(a_bytes.len().min(export.len()));
        rep.violation("bin:export-differs", format!("adlt convert -o wrote {} bytes, expected {} (messages written one by one); first difference at byte {}", a_bytes.len(), export.len(), at), replay());
        return;
    }
    // exports larger than a pipe buffer: half of them are exported again into a fifo whose reader stalls for 1.6 s while the
    // channels between the stages hold 2 messages (hook H4): back pressure through every stage, the export must not change
    if a_bytes.len() > 300_000 && a_bytes.len() % 2 == 0 {
        match run_convert_stalled_fifo(bin, &a, &dir.path().join("b.fifo")) {
            None => rep.inc("inconclusive_fifo"),
            Some((false, err, _)) => rep.violation("bin:export-failed", format!("adlt convert a.dlt -o b.fifo failed: {}", err), replay()),
            Some((true, _, b_bytes)) => {
                rep.inc("bin_exports_read_through_a_stalled_fifo");
                if b_bytes != a_bytes {
                    rep.violation("bin:export-under-back-pressure", format!("export into a fifo whose reader stalled for 1.6 s (channel capacity 2): {} bytes arrived, the exported file has {}", b_bytes.len(), a_bytes.len()), replay());
                }
            }
        }
        return;
    }
    match run_convert(bin, &a, &b) {
        None => rep.inc("inconclusive_bin_spawn"),
        Some((false, err)) => rep.violation("bin:export-failed", format!("adlt convert a.dlt -o b.dlt failed: {}", err), replay()),
        Some((true, _)) => {
            let b_bytes = std::fs::read(&b).unwrap_or_default();
            rep.inc("bin_export_of_export");
            if b_bytes != a_bytes {
                rep.violation("bin:export-of-export", format!("{} vs {} bytes", b_bytes.len(), a_bytes.len()), replay());
            }
        }
    }
}
