//! C01 framing: complete, faithful recovery of messages between garbage
//! C02 export fidelity (same streams; see c02.rs)
use crate::gen::*;
use crate::refdlt::*;
use crate::report::*;
use crate::rng::*;
use adlt::dlt::{DltMessage, DLT_MAX_STORAGE_MSG_SIZE};
use adlt::utils::{DltMessageIterator, LowMarkBufReader};
use serde_json::json;
use std::io::Cursor;

/// compare an adlt message with the reference message. Returns the name of the first differing field
pub fn diff_msg(m: &DltMessage, r: &RefMsg, exp_index: u32) -> Option<String> {
    if m.index != exp_index {
        return Some(format!("index got {} exp {}", m.index, exp_index));
    }
    if m.ecu.as_buf() != &r.exp_ecu() {
        return Some(format!("ecu got {:?} exp {:?}", m.ecu.as_buf(), r.exp_ecu()));
    }
    if m.reception_time_us != r.exp_reception_time_us() {
        return Some(format!(
            "reception_time got {} exp {}",
            m.reception_time_us,
            r.exp_reception_time_us()
        ));
    }
    if m.timestamp_dms != r.exp_timestamp_dms() {
        return Some(format!(
            "timestamp got {} exp {}",
            m.timestamp_dms,
            r.exp_timestamp_dms()
        ));
    }
    if m.standard_header.htyp != r.htyp() {
        return Some(format!("htyp got {:x} exp {:x}", m.standard_header.htyp, r.htyp()));
    }
    if m.standard_header.mcnt != r.mcnt {
        return Some(format!("mcnt got {} exp {}", m.standard_header.mcnt, r.mcnt));
    }
    if m.standard_header.len as usize != r.len_field() {
        return Some(format!("len got {} exp {}", m.standard_header.len, r.len_field()));
    }
    match (&m.extended_header, &r.ext) {
        (None, None) => {}
        (Some(e), Some(x)) => {
            if e.verb_mstp_mtin != x.msin
                || e.noar != x.noar
                || e.apid.as_buf() != &x.apid
                || e.ctid.as_buf() != &x.ctid
            {
                return Some(format!("extended_header got {:?} exp {:?}", e, x));
            }
        }
        (a, b) => {
            return Some(format!("extended_header presence got {} exp {}", a.is_some(), b.is_some()));
        }
    }
    if m.payload != r.payload {
        return Some(format!(
            "payload differs (len got {} exp {})",
            m.payload.len(),
            r.payload.len()
        ));
    }
    if m.payload_text.is_some() {
        return Some("payload_text set".into());
    }
    if m.lifecycle != 0 {
        return Some("lifecycle set".into());
    }
    None
}

pub struct IterResult {
    pub msgs: Vec<DltMessage>,
    pub bytes_processed: usize,
    pub bytes_skipped: usize,
    pub det_storage: bool,
    pub det_serial: bool,
    pub final_index: u32,
}

pub fn run_iter<R: std::io::BufRead>(start: u32, r: R) -> IterResult {
    let mut it = DltMessageIterator::new(start, r);
    let mut msgs = Vec::new();
    for m in &mut it {
        msgs.push(m);
    }
    IterResult {
        msgs,
        bytes_processed: it.bytes_processed,
        bytes_skipped: it.bytes_skipped,
        det_storage: it.detected_storage_header,
        det_serial: it.detected_serial_header,
        final_index: it.index,
    }
}

pub fn case_replay(c: &StreamCase, start: u32, reader: &str) -> serde_json::Value {
    json!({"kind":"c01", "serial": c.serial, "start_index": start, "reader": reader,
        "offsets": c.offsets, "garbage": c.garbage,
        "bytes_hex": if c.bytes.len() <= 300_000 { hex(&c.bytes) } else { format!("<{} bytes, too long>", c.bytes.len()) }})
}

/// the oracle. Returns (class, detail) of the first violation
pub fn check_case(c: &StreamCase, start: u32, res: &IterResult) -> Option<(String, String)> {
    let n = c.msgs.len();
    if res.msgs.len() != n {
        // narrow class for the known defect: serial framing, nothing latched and fewer than 20 bytes from the first message to the end
        let class = if c.serial
            && n > 0
            && res.msgs.is_empty()
            && c.bytes.len() - c.offsets[0] < 20
        {
            "count:serial-first-msg-within-last-20-bytes"
        } else {
            "count"
        };
        return Some((
            class.into(),
            format!("yielded {} messages, expected {}", res.msgs.len(), n),
        ));
    }
    for (k, m) in res.msgs.iter().enumerate() {
        if let Some(d) = diff_msg(m, &c.msgs[k], start.wrapping_add(k as u32)) {
            let field = d.split(' ').next().unwrap_or("?").to_string();
            return Some((format!("field:{}", field), format!("msg #{}: {}", k, d)));
        }
    }
    if res.final_index != start.wrapping_add(n as u32) {
        return Some(("index:final".into(), format!("iterator index {} exp {}", res.final_index, start.wrapping_add(n as u32))));
    }
    let total = c.bytes.len();
    let sum_g: usize = c.garbage.iter().sum();
    let last_g = *c.garbage.last().unwrap();
    if res.bytes_processed > total {
        return Some(("counter:processed>input".into(), format!("bytes_processed {} > input {}", res.bytes_processed, total)));
    }
    let u = total - res.bytes_processed;
    let min_msg = if c.serial && n > 0 { 8 } else { 20 };
    if u >= min_msg || u > last_g {
        return Some((
            "counter:processed".into(),
            format!("bytes_processed {} of {}: unconsumed {} (trailing garbage {}, min msg {})", res.bytes_processed, total, u, last_g, min_msg),
        ));
    }
    if res.bytes_skipped != sum_g - u {
        return Some((
            "counter:skipped".into(),
            format!("bytes_skipped {} exp {} (garbage {} - unconsumed {})", res.bytes_skipped, sum_g - u, sum_g, u),
        ));
    }
    if n > 0 && (res.det_serial != c.serial || res.det_storage == c.serial) {
        return Some(("latch".into(), format!("detected storage={} serial={} but framing serial={}", res.det_storage, res.det_serial, c.serial)));
    }
    None
}

fn bucket(l: usize) -> u8 {
    match l {
        0 => 0,
        1..=3 => 1,
        4..=7 => 2,
        8..=19 => 3,
        20..=255 => 4,
        256..=4095 => 5,
        4096..=65535 => 6,
        _ => 7,
    }
}

pub fn case_signature(c: &StreamCase) -> Option<u64> {
    if c.msgs.len() >= 2 && c.garbage.iter().any(|g| *g > 0) {
        let mut shapes: Vec<u8> = c.msgs.iter().map(|m| m.shape()).collect();
        shapes.sort_unstable();
        let mut v = vec![c.serial as u8];
        v.extend_from_slice(&shapes);
        v.push(0xff);
        let mut gb: Vec<u8> = c.garbage.iter().map(|g| bucket(*g)).collect();
        gb.sort_unstable();
        v.extend_from_slice(&gb);
        Some(fnv(&v))
    } else {
        None
    }
}

pub fn gen_case(p: &Params, i: u64) -> (StreamCase, u32, u8) {
    let mut rng = Rng::new(p.case_seed(i));
    let mut o = StreamOpts::default();
    let serial;
    if i < 16 {
        // force all 32 shapes x 2 framings in the first 16 cases of every shard
        serial = i >= 8;
        let base = ((i % 8) * 4) as u8;
        o.force_shapes = vec![base, base + 1, base + 2, base + 3];
    } else {
        serial = rng.chance(1, 2);
    }
    if p.thorough {
        o.msg.huge_per_mille = 20;
    }
    if p.has("tiny") {
        // interpreter shards: small streams only
        o.msg.huge_per_mille = 0;
        o.max_msgs = 6;
        o.huge_garbage = false;
    }
    let c = gen_stream(&mut rng, serial, &o);
    let n = c.msgs.len() as u32;
    let start = match rng.below(6) {
        0 => 1,
        1 => 1 << 31,
        2 => u32::MAX - n,
        3 => rng.next_u32() >> 1,
        _ => 0,
    };
    let reader = rng.below(3) as u8;
    (c, start, reader)
}

pub fn run_reader(c: &StreamCase, start: u32, reader: u8) -> (IterResult, &'static str) {
    match reader {
        0 => (run_iter(start, Cursor::new(&c.bytes[..])), "cursor"),
        1 => (
            run_iter(
                start,
                LowMarkBufReader::new(Cursor::new(&c.bytes[..]), DLT_MAX_STORAGE_MSG_SIZE + 4096, DLT_MAX_STORAGE_MSG_SIZE),
            ),
            "lowmark+4096",
        ),
        _ => (
            run_iter(
                start,
                LowMarkBufReader::new(Cursor::new(&c.bytes[..]), 512 * 1024, DLT_MAX_STORAGE_MSG_SIZE),
            ),
            "lowmark512k",
        ),
    }
}

pub fn run(p: &Params) -> Report {
    let mut rep = Report::new("C01");
    if let Some(path) = &p.replay {
        replay(path, &mut rep);
        return rep;
    }
    let mut shapes_seen = [0u64; 64];
    let mut i = 0u64;
    while (p.cases == 0 || i < p.cases) && !p.time_up() {
        let (c, start, reader) = gen_case(p, i);
        i += 1;
        rep.inc("evaluations");
        rep.add("messages", c.msgs.len() as u64);
        rep.add("garbage_bytes", c.garbage.iter().sum::<usize>() as u64);
        rep.add("marker_repairs", c.repairs as u64);
        if c.serial {
            rep.inc("streams_serial");
        } else {
            rep.inc("streams_storage");
        }
        for m in &c.msgs {
            shapes_seen[m.shape() as usize] += 1;
            rep.max("max_payload", m.payload.len() as u64);
        }
        if let Some(s) = case_signature(&c) {
            rep.sig(s);
            rep.inc("nontrivial");
        }
        let res = crate::guard::catch(|| run_reader(&c, start, reader));
        match res {
            Err(pi) => {
                rep.violation(&pi.class(), format!("panic at {}:{} {}", pi.file, pi.line, pi.msg), case_replay(&c, start, "any"));
            }
            Ok((res, rname)) => {
                rep.add("bytes_skipped_total", res.bytes_skipped as u64);
                rep.inc(&format!("reader_{}", rname));
                if let Some((class, detail)) = check_case(&c, start, &res) {
                    rep.violation(&class, detail, case_replay(&c, start, rname));
                }
                if rep.want_sample() && c.msgs.len() >= 2 && c.bytes.len() < 200 && c.garbage.iter().any(|g| *g > 0) {
                    rep.sample(json!({"framing": if c.serial {"serial"} else {"storage"}, "stream_hex": hex(&c.bytes), "message_offsets": c.offsets, "garbage_runs": c.garbage, "start_index": start, "reader": rname, "yielded": res.msgs.len(), "bytes_skipped": res.bytes_skipped, "bytes_processed": res.bytes_processed}));
                }
            }
        }
    }
    let seen = shapes_seen.iter().filter(|x| **x > 0).count() as u64;
    rep.add("header_shapes_seen", seen);
    rep
}

pub fn replay(path: &str, rep: &mut Report) {
    let v: serde_json::Value = serde_json::from_str(&std::fs::read_to_string(path).expect("read replay")).expect("parse replay");
    let v = if v.get("replay").is_some() { v["replay"].clone() } else { v };
    let bytes = unhex(v["bytes_hex"].as_str().unwrap_or(""));
    let serial = v["serial"].as_bool().unwrap_or(false);
    let offsets: Vec<usize> = v["offsets"].as_array().map(|a| a.iter().map(|x| x.as_u64().unwrap() as usize).collect()).unwrap_or_default();
    let garbage: Vec<usize> = v["garbage"].as_array().map(|a| a.iter().map(|x| x.as_u64().unwrap() as usize).collect()).unwrap_or_default();
    let start = v["start_index"].as_u64().unwrap_or(0) as u32;
    let msgs: Vec<RefMsg> = offsets.iter().map(|o| decode_one(&bytes[*o..], serial, *o).unwrap().0).collect();
    let c = StreamCase { serial, bytes, msgs, offsets, garbage, repairs: 0 };
    for reader in 0..3u8 {
        rep.inc("evaluations");
        match crate::guard::catch(|| run_reader(&c, start, reader)) {
            Err(pi) => rep.violation(&pi.class(), format!("panic at {}:{} {}", pi.file, pi.line, pi.msg), case_replay(&c, start, "any")),
            Ok((res, rname)) => {
                if let Some((class, detail)) = check_case(&c, start, &res) {
                    rep.violation(&class, detail, case_replay(&c, start, rname));
                }
            }
        }
    }
}
