//! C13 bounded channels and slow consumers never lose or reorder messages
use crate::lc::{new_table, LcInfo};
use crate::lcgen::*;
use crate::report::*;
use crate::rng::*;
use adlt::dlt::DltMessage;
use adlt::filter::functions::filter_as_streams;
use adlt::filter::Filter;
use adlt::lifecycle::parse_lifecycles_buffered_from_stream;
use adlt::plugins::plugins_process_msgs;
use adlt::utils::{buffer_sort_messages, sync_sender_send_delay_if_full};
use adlt::verif::{clear_pauses, set_pause, snapshot, Point};
use serde_json::json;
use std::sync::mpsc::{channel, sync_channel, Receiver, Sender, SyncSender};
use std::time::{Duration, Instant};

#[derive(Clone, Debug)]
pub struct PipeCfg {
    /// capacity per channel; None = unbounded reference
    pub caps: Option<[usize; 5]>,
    pub sort: bool,
    pub filter: bool,
    /// consumer: stall micros every k-th message
    pub consumer_stall: Option<(u32, u32)>,
    /// producer: stall micros every k-th message
    pub producer_stall: Option<(u32, u32)>,
    /// drop the consumer after that many messages
    pub drop_after: Option<usize>,
    /// run the real Export plugin (lifecyclesToKeep) in the plugin stage: it forwards every message and looks
    /// every new lifecycle id up in the shared table when the message reaches it (panics if it is unknown)
    pub export: bool,
}

enum Tx {
    Bounded(SyncSender<DltMessage>),
    Unbounded(Sender<DltMessage>),
}
impl Tx {
    fn send(&self, m: DltMessage) -> Result<(), std::sync::mpsc::SendError<DltMessage>> {
        match self {
            Tx::Bounded(t) => sync_sender_send_delay_if_full(m, t),
            Tx::Unbounded(t) => t.send(m),
        }
    }
}
fn mk_chan(cap: Option<usize>) -> (Tx, Receiver<DltMessage>) {
    match cap {
        Some(c) => {
            let (t, r) = sync_channel(c);
            (Tx::Bounded(t), r)
        }
        None => {
            let (t, r) = channel();
            (Tx::Unbounded(t), r)
        }
    }
}

pub struct PipeResult {
    pub out: Vec<DltMessage>,
    pub table: Vec<LcInfo>,
    pub blocked_stages: Vec<String>,
    pub join_ms: u128,
    pub send_full: u64,
    pub stage_panics: Vec<String>,
}

fn filter_set() -> Vec<Filter> {
    vec![
        Filter::from_json(r#"{"type":0,"ecu":"ECU1|ECU2|E3","ecuIsRegex":true}"#).unwrap(),
        Filter::from_json(r#"{"type":1,"apid":"DA1"}"#).unwrap(),
    ]
}

pub fn run_pipeline(input: &[DltMessage], cfg: &PipeCfg) -> PipeResult {
    let before = snapshot();
    let cap = |i: usize| cfg.caps.map(|c| c[i]);
    let (lcs_r, lcs_w) = new_table();
    let (done_tx, done_rx) = channel::<(&'static str, bool)>();
    let mut expected_stages = vec!["producer", "lifecycle", "plugins"];

    let (tx0, rx0) = mk_chan(cap(0));
    let (tx1, rx1) = mk_chan(cap(1));
    let (tx2, rx2) = mk_chan(cap(2));

    // producer
    let inp: Vec<DltMessage> = input.to_vec();
    let pstall = cfg.producer_stall;
    let d = done_tx.clone();
    std::thread::Builder::new()
        .name("producer".into())
        .spawn(move || {
            let r = std::panic::catch_unwind(std::panic::AssertUnwindSafe(|| {
                for (k, m) in inp.into_iter().enumerate() {
                    if let Some((every, us)) = pstall {
                        if (k as u32 + 1) % every == 0 {
                            std::thread::sleep(Duration::from_micros(us as u64));
                        }
                    }
                    if tx0.send(m).is_err() {
                        break;
                    }
                }
            }));
            let _ = d.send(("producer", r.is_ok()));
        })
        .unwrap();
    // lifecycle stage
    let d = done_tx.clone();
    let (table_tx, table_rx) = channel();
    std::thread::Builder::new()
        .name("lifecycle".into())
        .spawn(move || {
            let r = std::panic::catch_unwind(std::panic::AssertUnwindSafe(|| {
                let w = parse_lifecycles_buffered_from_stream(lcs_w, rx0, &|m| tx1.send(m));
                drop(tx1);
                w
            }));
            let ok = r.is_ok();
            if let Ok(w) = r {
                let _ = table_tx.send(w); // keep the write handle alive until the table was read
            }
            let _ = d.send(("lifecycle", ok));
        })
        .unwrap();
    // plugin stage (no plugins configured: the stage forwards every message; or the Export plugin)
    let d = done_tx.clone();
    let export_dir = if cfg.export { tempfile::tempdir().ok() } else { None };
    let mut plugins: Vec<Box<dyn adlt::plugins::plugin::Plugin + Send>> = vec![];
    if let Some(dir) = &export_dir {
        let conf = json!({"name":"Export","exportFileName": dir.path().join("export.dlt").to_string_lossy(), "filters": [],
            "lifecyclesToKeep":[{"ecu":"ECU1","startTime": 1_600_000_000_000_000u64, "endTime": 1_600_000_100_000_000u64}]});
        if let Ok(mut pl) = adlt::plugins::export::ExportPlugin::from_json(conf.as_object().unwrap()) {
            use adlt::plugins::plugin::Plugin;
            pl.set_lifecycle_read_handle(&lcs_r);
            plugins.push(Box::new(pl));
        }
    }
    std::thread::Builder::new()
        .name("plugins".into())
        .spawn(move || {
            let r = std::panic::catch_unwind(std::panic::AssertUnwindSafe(|| {
                let _ = plugins_process_msgs(rx1, &|m| tx2.send(m), plugins);
                drop(tx2);
            }));
            let _ = d.send(("plugins", r.is_ok()));
        })
        .unwrap();
    let mut rx_last = rx2;
    if cfg.sort {
        expected_stages.push("sort");
        let (tx3, rx3) = mk_chan(cap(3));
        let r = lcs_r.clone();
        let d = done_tx.clone();
        let rx_in = rx_last;
        std::thread::Builder::new()
            .name("sort".into())
            .spawn(move || {
                let res = std::panic::catch_unwind(std::panic::AssertUnwindSafe(|| {
                    let _ = buffer_sort_messages(rx_in, &|m| tx3.send(m), &r, 3, 2_000_000);
                    drop(tx3);
                }));
                let _ = d.send(("sort", res.is_ok()));
            })
            .unwrap();
        rx_last = rx3;
    }
    if cfg.filter {
        expected_stages.push("filter");
        let (tx4, rx4) = mk_chan(cap(4));
        let d = done_tx.clone();
        let rx_in = rx_last;
        std::thread::Builder::new()
            .name("filter".into())
            .spawn(move || {
                let res = std::panic::catch_unwind(std::panic::AssertUnwindSafe(|| {
                    let fs = filter_set();
                    let _ = filter_as_streams(&fs, &rx_in, &|m| tx4.send(m));
                    drop(tx4);
                }));
                let _ = d.send(("filter", res.is_ok()));
            })
            .unwrap();
        rx_last = rx4;
    }
    drop(done_tx);
    // consumer
    let mut out = Vec::new();
    let mut rx_opt = Some(rx_last);
    let t_drop;
    loop {
        if let Some(k) = cfg.drop_after {
            if out.len() >= k {
                rx_opt = None; // drop the receiver: the consumer disappears
                break;
            }
        }
        match rx_opt.as_ref().unwrap().recv() {
            Ok(m) => {
                out.push(m);
                if let Some((every, us)) = cfg.consumer_stall {
                    if out.len() as u32 % every == 0 {
                        std::thread::sleep(Duration::from_micros(us as u64));
                    }
                }
            }
            Err(_) => break,
        }
    }
    t_drop = Instant::now();
    drop(rx_opt);
    // all stages must terminate
    let mut finished: Vec<&'static str> = vec![];
    let mut stage_panics = vec![];
    let deadline = Duration::from_secs(30);
    let hard_deadline = Duration::from_secs(120);
    let mut blocked: Vec<String> = vec![];
    while finished.len() < expected_stages.len() {
        let el = t_drop.elapsed();
        let left = if el < deadline { deadline - el } else if el < hard_deadline { hard_deadline - el } else { Duration::from_secs(0) };
        match done_rx.recv_timeout(left) {
            Ok((name, ok)) => {
                finished.push(name);
                if !ok {
                    stage_panics.push(name.to_string());
                }
            }
            Err(_) => {
                if t_drop.elapsed() >= hard_deadline {
                    blocked = expected_stages.iter().filter(|s| !finished.contains(s)).map(|s| s.to_string()).collect();
                    break;
                }
            }
        }
    }
    let join_ms = t_drop.elapsed().as_millis();
    let mut table = Vec::new();
    if let Ok(w) = table_rx.recv_timeout(Duration::from_millis(if blocked.is_empty() { 1000 } else { 1 })) {
        if let Some(rr) = lcs_r.read() {
            for (id, b) in &rr {
                if let Some(lc) = b.get_one() {
                    table.push(LcInfo { id: *id, ecu: lc.ecu, nr_msgs: lc.nr_msgs, start_time: lc.start_time, end_time: lc.end_time(), is_resume: lc.is_resume(), resume_origin: lc.verif_resume_origin(), merged_into: lc.was_merged() });
                }
            }
        }
        drop(w);
    }
    table.sort_by_key(|l| l.id);
    let after = snapshot();
    drop(export_dir);
    PipeResult { out, table, blocked_stages: blocked, join_ms, send_full: after[Point::SendFull as usize] - before[Point::SendFull as usize], stage_panics }
}

/// normalise lifecycle ids by order of creation
fn norm_table(t: &[LcInfo]) -> Vec<(usize, [u8; 4], u32, u64, u64, bool)> {
    t.iter().enumerate().map(|(k, l)| (k, *l.ecu.as_buf(), l.nr_msgs, l.start_time, l.end_time, l.is_resume)).collect()
}
fn norm_out(out: &[DltMessage], t: &[LcInfo]) -> Vec<(u32, usize)> {
    out.iter().map(|m| (m.index, t.iter().position(|l| l.id == m.lifecycle).unwrap_or(usize::MAX))).collect()
}

fn cfg_json(c: &PipeCfg) -> serde_json::Value {
    json!({"caps": c.caps.map(|c| c.to_vec()), "sort": c.sort, "filter": c.filter, "consumer_stall": c.consumer_stall.map(|x| [x.0, x.1]), "producer_stall": c.producer_stall.map(|x| [x.0, x.1]), "drop_after": c.drop_after, "export_plugin": c.export})
}

pub fn run(p: &Params) -> Report {
    let mut rep = Report::new("C13");
    if p.replay.is_some() {
        rep.note("C13 replays depend on thread timing: the replay file carries scenario and pipeline configuration; re-run ./check C13 with the recorded seed".into());
        return rep;
    }
    let adlt_bin = p.val("adlt_bin");
    let tiny = p.has("tiny");
    let mut i = 0u64;
    while (p.cases == 0 || i < p.cases) && !p.time_up() {
        let mut rng = Rng::new(p.case_seed(i) ^ 0xC13);
        i += 1;
        // binary level: every 8th case (if a binary is available)
        if let Some(bin) = &adlt_bin {
            if i % 8 == 0 {
                binary_case(&mut rep, &mut rng, bin, i);
                continue;
            }
        }
        let max = if tiny { 12 } else { 40 + rng.usize_below(260) };
        let hostile = rng.chance(1, 2);
        let mut s = if !tiny && rng.chance(1, 4) { gen_targeted(&mut rng) } else { gen_scenario(&mut rng, hostile, max) };
        let mut input = to_dlt(&s, i as u32);
        // census guided selection (2/3 of the cases): the threaded pipelines are expensive (the helper sleeps 10 ms per
        // full channel), so candidates are screened by a cheap synchronous run of the detector and one that takes the
        // rare release paths (merge of a buffered lifecycle, flush after a merge, confirmation that releases messages
        // of other lifecycles, >= 2 ECUs) is preferred. The census only steers the workload, it is never the oracle.
        if !tiny && rng.chance(2, 3) {
            for _try in 0..60 {
                let r = crate::c06::run_case(&[input.clone()], crate::c06::Pacing::None, false, 0);
                let c = |p: Point| r.census[p as usize];
                if s.n_ecus >= 2 && c(Point::LcOutMergeFlush) > 0 && c(Point::LcOutConfirmOther) > 0 && c(Point::LcMergeBuffered) > 0 {
                    rep.inc("scenarios_selected_by_census");
                    break;
                }
                s = if rng.chance(1, 4) { gen_targeted(&mut rng) } else { gen_scenario(&mut rng, hostile, max) };
                input = to_dlt(&s, i as u32);
            }
        }
        let sort = rng.chance(1, 4);
        let filter = rng.chance(1, 3);
        let export = rng.chance(1, 2);
        let reference = run_pipeline(&input, &PipeCfg { caps: None, sort, filter, consumer_stall: None, producer_stall: None, drop_after: None, export });
        if !reference.blocked_stages.is_empty() || !reference.stage_panics.is_empty() {
            rep.violation("reference-pipeline-failed", format!("blocked {:?} panics {:?}", reference.blocked_stages, reference.stage_panics), json!({"scenario": scenario_json(&s)}));
            continue;
        }
        let capv = *rng.pick(&[0usize, 0, 1, 1, 2, 3, 16, 1024]);
        let mut caps = [capv; 5];
        if rng.chance(1, 3) {
            for c in caps.iter_mut() {
                *c = *rng.pick(&[0usize, 1, 2, 3, 16]);
            }
        }
        let consumer_stall = match rng.below(6) {
            0 => None,
            4 => Some((20 + rng.below(100) as u32, 120_000 + rng.below(300_000) as u32)), // long stalls (> 100 ms) at a few points
            1 => Some((1 + rng.below(5) as u32, rng.below(300) as u32)),
            2 => Some((5 + rng.below(50) as u32, 1000 + rng.below(20_000) as u32)),
            _ => Some((1, rng.below(50) as u32)),
        };
        let producer_stall = if rng.chance(1, 3) { Some((1 + rng.below(40) as u32, rng.below(5000) as u32)) } else { None };
        let drop_after = if rng.chance(1, 5) {
            let n = reference.out.len();
            Some(*rng.pick(&[0usize, 1, n / 2, n.saturating_sub(1)]))
        } else {
            None
        };
        clear_pauses();
        let hook_class = match rng.below(5) {
            0 => {
                set_pause(Point::BeforeSend, 1 + rng.below(5), rng.below(100));
                1
            }
            1 => {
                set_pause(Point::LcOutConfirmOwn, 1 + rng.below(3), rng.below(200));
                set_pause(Point::LcOutFinalFlush, 1 + rng.below(3), rng.below(200));
                2
            }
            _ => 0,
        };
        let cfg = PipeCfg { caps: Some(caps), sort, filter, consumer_stall, producer_stall, drop_after, export };
        if export {
            rep.inc("pipelines_with_export_plugin");
        }
        let res = run_pipeline(&input, &cfg);
        clear_pauses();
        rep.inc("evaluations");
        rep.add("messages", input.len() as u64);
        rep.add("full_channel_waits", res.send_full);
        rep.max("max_join_ms", res.join_ms as u64);
        let rp = || json!({"kind":"c13","scenario": scenario_json(&s), "cfg": cfg_json(&cfg)});
        if !res.stage_panics.is_empty() {
            rep.violation("stage-panicked", format!("stages {:?} panicked", res.stage_panics), rp());
            continue;
        }
        if !res.blocked_stages.is_empty() {
            rep.violation(&format!("stage-blocked:{}", res.blocked_stages.join("+")), format!("stages {:?} did not terminate within 120 s after the consumer was gone", res.blocked_stages), rp());
            continue;
        }
        if let Some(k) = drop_after {
            rep.inc("early_consumer_drops");
            rep.inc(&format!("early_drop_at_{}", if k == 0 { "0" } else if k == 1 { "1" } else if k + 1 >= reference.out.len() { "last" } else { "mid" }));
            // delivered prefix must still be a prefix of the reference (unsorted)
            if !sort {
                let a: Vec<u32> = res.out.iter().map(|m| m.index).collect();
                let b: Vec<u32> = reference.out.iter().map(|m| m.index).collect();
                if a.len() > b.len() || a[..] != b[..a.len()] {
                    rep.violation("prefix-differs-after-drop", "messages delivered before the consumer dropped are not a prefix of the reference sequence".into(), rp());
                    continue;
                }
            }
        } else {
            // complete run: compare with the reference
            if norm_table(&res.table) != norm_table(&reference.table) {
                rep.violation("table-differs", format!("final lifecycle table differs from the unbounded reference: {:?} vs {:?}", norm_table(&res.table), norm_table(&reference.table)), rp());
                continue;
            }
            let a = norm_out(&res.out, &res.table);
            let b = norm_out(&reference.out, &reference.table);
            if !sort {
                if a != b {
                    let pos = a.iter().zip(b.iter()).position(|(x, y)| x != y).unwrap_or(a.len().min(b.len()));
                    let class = if a.len() < b.len() { "lost" } else if a.len() > b.len() { "duplicated" } else { "reordered-or-relabelled" };
                    rep.violation(class, format!("bounded pipeline delivered {} messages, reference {}; first difference at position {}", a.len(), b.len(), pos), rp());
                    continue;
                }
                // content unchanged as well
                if res.out.iter().zip(reference.out.iter()).any(|(x, y)| {
                    let mut x = x.clone();
                    x.lifecycle = y.lifecycle;
                    &x != y
                }) {
                    rep.violation("altered", "a delivered message differs from the reference beyond the lifecycle id".into(), rp());
                    continue;
                }
            } else {
                let mut a2: Vec<u32> = a.iter().map(|x| x.0).collect();
                let mut b2: Vec<u32> = b.iter().map(|x| x.0).collect();
                a2.sort_unstable();
                b2.sort_unstable();
                if a2 != b2 {
                    rep.violation(if a2.len() < b2.len() { "lost" } else { "duplicated" }, format!("sorted pipeline delivered {} messages, reference {}", a2.len(), b2.len()), rp());
                    continue;
                }
                // informational only: the sorted order may legitimately depend on the pacing (the sort stage
                // reads the lifecycle start at the time it first sees a lifecycle)
                rep.inc(if a == b { "sorted_same_order_as_reference" } else { "sorted_order_differs_from_reference" });
            }
        }
        if res.send_full >= 20 {
            rep.inc("nontrivial");
            rep.sig(fnv(&[caps[0].min(20) as u8, caps[1].min(20) as u8, caps[2].min(20) as u8, sort as u8, filter as u8, consumer_stall.map_or(0, |c| 1 + (c.1 > 500) as u8), producer_stall.is_some() as u8, drop_after.is_some() as u8, hook_class, (res.send_full / 50).min(10) as u8]));
            if rep.want_sample() {
                rep.sample(json!({"messages": input.len(), "cfg": cfg_json(&cfg), "full_channel_waits": res.send_full, "delivered": res.out.len(), "lifecycles": res.table.len(), "stages_joined_after_ms": res.join_ms as u64}));
            }
        }
    }
    rep
}

/// `adlt convert -o` with tiny channel capacities must write the same file as with the default capacities
fn binary_case(rep: &mut Report, rng: &mut Rng, bin: &str, i: u64) {
    let s = gen_scenario(rng, false, 120);
    let msgs = to_dlt(&s, i as u32);
    let dir = match tempfile::tempdir() {
        Ok(d) => d,
        Err(_) => return,
    };
    let inp = dir.path().join("in.dlt");
    let mut bytes = Vec::new();
    for m in &msgs {
        m.to_write(&mut bytes).unwrap();
    }
    std::fs::write(&inp, &bytes).unwrap();
    let sort = rng.chance(1, 4);
    let run = |cap: Option<usize>, out: &std::path::Path| -> Option<bool> {
        let mut c = std::process::Command::new(bin);
        c.arg("convert").arg("-o").arg(out).arg(&inp);
        if sort {
            c.arg("--sort");
        }
        c.env("TZ", "UTC");
        if let Some(cap) = cap {
            c.env("ADLT_VERIF_CHAN_CAP", cap.to_string());
        }
        c.stdout(std::process::Stdio::null()).stderr(std::process::Stdio::null());
        let mut child = c.spawn().ok()?;
        let t0 = Instant::now();
        loop {
            match child.try_wait() {
                Ok(Some(st)) => return Some(st.success()),
                Ok(None) => {
                    if t0.elapsed() > Duration::from_secs(180) {
                        let _ = child.kill();
                        let _ = child.wait();
                        return None;
                    }
                    std::thread::sleep(Duration::from_millis(5));
                }
                Err(_) => return None,
            }
        }
    };
    let ref_out = dir.path().join("ref.dlt");
    let cap_out = dir.path().join("cap.dlt");
    let cap = *rng.pick(&[0usize, 1, 2, 7]);
    let r1 = run(None, &ref_out);
    let r2 = run(Some(cap), &cap_out);
    rep.inc("evaluations");
    rep.inc("binary_convert_runs");
    match (r1, r2) {
        (Some(true), Some(true)) => {
            let a = std::fs::read(&ref_out).unwrap_or_default();
            let b = std::fs::read(&cap_out).unwrap_or_default();
            let same = if sort {
                // permutation: compare multisets of messages
                let split = |v: &[u8]| -> Vec<Vec<u8>> {
                    let mut r = vec![];
                    let mut p = 0;
                    while p + 20 <= v.len() {
                        let l = 16 + u16::from_be_bytes([v[p + 18], v[p + 19]]) as usize;
                        if p + l > v.len() {
                            break;
                        }
                        r.push(v[p..p + l].to_vec());
                        p += l;
                    }
                    r.sort();
                    r
                };
                split(&a) == split(&b)
            } else {
                a == b
            };
            if !same || a.len() != bytes.len() {
                rep.violation("binary:output-differs", format!("adlt convert -o with ADLT_VERIF_CHAN_CAP={} wrote {} bytes, default capacities {} bytes, input {} bytes (sort={})", cap, b.len(), a.len(), bytes.len(), sort), json!({"kind":"c13-bin","scenario": scenario_json(&s), "cap": cap, "sort": sort}));
            } else {
                rep.inc("binary_outputs_identical");
            }
        }
        (Some(false), _) | (_, Some(false)) => rep.violation("binary:convert-failed", format!("adlt convert exited with an error (cap {})", cap), json!({"kind":"c13-bin","scenario": scenario_json(&s), "cap": cap, "sort": sort})),
        _ => rep.inc("inconclusive_binary_timeouts"),
    }
}
