//! C16 remote streams deliver exactly the requested window of the filtered log
use crate::filt::*;
use crate::remote::*;
use crate::report::*;
use crate::rng::*;
use adlt::dlt::DltMessage;
use adlt::utils::remote_utils::{process_stream_new_msgs, StreamContext};
use serde_json::json;
use std::time::{Duration, Instant};

// ---------------------------------------------------------------- library level

fn lib_case(rep: &mut Report, rng: &mut Rng, log: &slog::Logger) {
    let nf = rng.usize_below(4);
    let fs: Vec<AbsFilter> = (0..nf)
        .map(|_| {
            let k = *rng.pick(&[0u8, 0, 1, 3]);
            let mut f = gen_filter(rng, k);
            f.enabled = true;
            f
        })
        .collect();
    let nmax = if rng.chance(1, 10) { 3000 } else { 300 };
    let n = rng.usize_below(nmax);
    let msgs: Vec<(DltMessage, String)> = (0..n).map(|k| gen_msg(rng, k as u32)).collect();
    let all: Vec<DltMessage> = msgs.iter().map(|(m, _)| m.clone()).collect();
    let is_stream = rng.chance(1, 2);
    let w0 = rng.usize_below(20);
    let wmax = if rng.chance(1, 4) { 5 } else { 400 };
    let w1 = w0 + rng.usize_below(wmax);
    let sjson = json!({"window":[w0, w1], "filters": fs.iter().map(to_json_value).collect::<Vec<_>>()}).to_string();
    let mut sc = match StreamContext::from(log, if is_stream { "stream" } else { "query" }, &sjson) {
        Ok(s) => s,
        Err(e) => {
            rep.violation("lib:stream-context-rejected", format!("{}", e), json!({"stream": sjson}));
            return;
        }
    };
    rep.inc("evaluations");
    rep.inc("lib_histories");
    let keep = |k: usize| -> bool {
        let (m, t) = &msgs[k];
        let pos: Vec<&AbsFilter> = fs.iter().filter(|f| f.kind == 0).collect();
        let neg: Vec<&AbsFilter> = fs.iter().filter(|f| f.kind == 1).collect();
        let ev: Vec<&AbsFilter> = fs.iter().filter(|f| f.kind == 3).collect();
        (pos.is_empty() || pos.iter().any(|f| spec_matches(f, m, t))) && !neg.iter().any(|f| spec_matches(f, m, t)) && (ev.is_empty() || ev.iter().any(|f| spec_matches(f, m, t)))
    };
    let chunk = *rng.pick(&[1usize, 2, 7, 63, 64, 65, 1000, 3_000_000]);
    // arrival pattern: all_msgs grows in batches; the server loop calls process_stream_new_msgs once per iteration
    let mut avail = 0usize;
    let mut steps = 0u64;
    let mut batches: Vec<usize> = vec![];
    let rp = |batches: &Vec<usize>| json!({"kind":"c16-lib","stream": sjson, "is_stream": is_stream, "chunk": chunk, "arrival_batches": batches, "messages": n});
    loop {
        // new arrivals (0 = an idle iteration)
        if avail < n {
            let b = match rng.below(6) {
                0 => 0,
                1 => 1,
                2 => chunk.saturating_sub(1).min(n - avail),
                3 => chunk.min(n - avail),
                4 => (chunk + 1).min(n - avail),
                _ => rng.usize_below(n - avail + 1),
            };
            avail += b;
            batches.push(b);
        }
        let last = sc.all_msgs_last_processed_len.min(avail);
        process_stream_new_msgs(&mut sc, last, &all[last..avail], chunk);
        steps += 1;
        let processed = sc.all_msgs_last_processed_len;
        if processed > avail {
            rep.violation("lib:processed-beyond-available", format!("all_msgs_last_processed_len {} > available {}", processed, avail), rp(&batches));
            return;
        }
        if sc.filters_active {
            // invariant: filtered_msgs == matches below `processed` (for queries truncated to window.end)
            let mut exp: Vec<usize> = (0..processed).filter(|k| keep(*k)).collect();
            if !is_stream && exp.len() > w1 {
                exp.truncate(w1);
            }
            if sc.filtered_msgs != exp {
                let class = if sc.filtered_msgs.len() < exp.len() { "lib:filtered-positions-missing" } else { "lib:filtered-positions-wrong" };
                rep.violation(class, format!("after {} steps (processed {} of {} available): filtered_msgs has {} entries, specification {} (chunk {})", steps, processed, avail, sc.filtered_msgs.len(), exp.len(), chunk), rp(&batches));
                return;
            }
        }
        let done_query = !is_stream && sc.filters_active && sc.filtered_msgs.len() >= w1;
        if avail == n && (processed == n || done_query) {
            break;
        }
        if steps > 20_000 {
            rep.violation("lib:no-progress", format!("no quiescence after {} steps (processed {} of {})", steps, processed, n), rp(&batches));
            return;
        }
    }
    rep.add("lib_steps", steps);
    if sc.filters_active && n > chunk {
        rep.inc("nontrivial");
        rep.sig(fnv(&[b'l', is_stream as u8, (chunk.min(255)) as u8, nf as u8, (n / 100).min(40) as u8, (w1 < 10) as u8]));
    }
}

// ---------------------------------------------------------------- binary level

struct Log {
    /// single ECU, one lifecycle, calculated time == reception time == base + k ms
    mono: bool,
    path: String,
    msgs: Vec<(DltMessage, String)>,
}

fn write_log(dir: &std::path::Path, rng: &mut Rng, n: usize, name: &str) -> Log {
    let mut msgs = Vec::with_capacity(n);
    let mut bytes = Vec::new();
    let mono = name.starts_with("mono");
    for k in 0..n {
        let ecu = if mono { ECUS[0] } else { *rng.pick(&ECUS) };
        let text = format!("{} #{}", rng.pick(&TEXTS), k);
        let vmm = *rng.pick(&[0x41u8, 0x41, 0x21, 0x31, 0x61, 0x51]);
        let mut m = mk_msg(k as u32, ecu, Some((vmm, *rng.pick(&APIDS), *rng.pick(&APIDS))), 0, &text, true);
        m.reception_time_us = 1_600_000_000_000_000 + k as u64 * 1000;
        // strictly increasing calculated times (= reception times: constant delay per ECU); every ECU has been up for a
        // different time, so the lifecycles have different start times although the time sorted order is the file order
        let ecu_nr = ECUS.iter().position(|e| *e == ecu).unwrap_or(0) as u32;
        m.timestamp_dms = 10 + k as u32 * 10 + ecu_nr * 77_770;
        m.standard_header.htyp = 0x31;
        m.to_write(&mut bytes).unwrap();
        // what the file says (the storage header carries the ecu; to_write drops nothing else here)
        msgs.push((m, text));
    }
    let path = dir.join(name);
    std::fs::write(&path, bytes).unwrap();
    Log { mono, path: path.to_string_lossy().to_string(), msgs }
}

fn spec_keep_set(fs: &[AbsFilter], m: &DltMessage, t: &str) -> bool {
    let pos: Vec<&AbsFilter> = fs.iter().filter(|f| f.enabled && f.kind == 0).collect();
    let neg: Vec<&AbsFilter> = fs.iter().filter(|f| f.enabled && f.kind == 1).collect();
    let ev: Vec<&AbsFilter> = fs.iter().filter(|f| f.enabled && f.kind == 3).collect();
    (pos.is_empty() || pos.iter().any(|f| spec_matches(f, m, t))) && !neg.iter().any(|f| spec_matches(f, m, t)) && (ev.is_empty() || ev.iter().any(|f| spec_matches(f, m, t)))
}

fn id_of(reply: &str) -> Option<u32> {
    let p = reply.find("\"id\":")?;
    reply[p + 5..].chars().skip_while(|c| *c == ' ').take_while(|c| c.is_ascii_digit()).collect::<String>().parse().ok()
}

/// collect DltMsgs frames of a stream id until `want` messages arrived (or the query end marker / timeout)
fn collect_stream(cl: &mut Client, id: u32, want: usize, is_query: bool, total_file_msgs: u32, pre: Vec<Frame>) -> (Vec<RMsg>, bool, Vec<u32>) {
    let mut got: Vec<RMsg> = vec![];
    let mut ended = false;
    let mut foreign: Vec<u32> = vec![];
    let mut file_done = false;
    let mut last_progress = Instant::now();
    let mut handle = |f: Frame, got: &mut Vec<RMsg>, ended: &mut bool, file_done: &mut bool, foreign: &mut Vec<u32>| -> bool {
        match f {
            Frame::DltMsgs(i, v) => {
                if i == id {
                    if v.is_empty() {
                        *ended = true;
                    }
                    got.extend(v);
                    true
                } else {
                    foreign.push(i);
                    false
                }
            }
            Frame::StreamText(t) => {
                // text mode: "stream:<id> msg(<stream position>):<header text>"
                let parsed = (|| {
                    let rest = t.strip_prefix("stream:")?;
                    let (sid, rest) = rest.split_once(' ')?;
                    let rest = rest.strip_prefix("msg(")?;
                    let (pos, text) = rest.split_once("):")?;
                    let index: u32 = text.split(' ').next()?.parse().ok()?;
                    Some((sid.parse::<u32>().ok()?, pos.parse::<u32>().ok()?, index, text.to_string()))
                })();
                match parsed {
                    Some((sid, pos, index, text)) if sid == id => {
                        // reception_time u64::MAX marks a text mode line; timestamp_dms carries the announced stream position
                        got.push(RMsg { index, reception_time: u64::MAX, timestamp_dms: pos, ecu: 0, apid: 0, ctid: 0, lifecycle_id: 0, htyp: 0, mcnt: 0, verb_mstp_mtin: 0, noar: 0, text });
                        true
                    }
                    Some((sid, ..)) => {
                        foreign.push(sid);
                        false
                    }
                    None => {
                        got.push(RMsg { index: u32::MAX, reception_time: u64::MAX, timestamp_dms: u32::MAX, ecu: 0, apid: 0, ctid: 0, lifecycle_id: 0, htyp: 0, mcnt: 0, verb_mstp_mtin: 0, noar: 0, text: t });
                        true
                    }
                }
            }
            Frame::StreamInfo { stream_id, processed, total, .. } => {
                if stream_id == id && processed >= total_file_msgs && total >= total_file_msgs {
                    *file_done = true;
                }
                true
            }
            _ => false,
        }
    };
    for f in pre {
        handle(f, &mut got, &mut ended, &mut file_done, &mut foreign);
    }
    let t0 = Instant::now();
    let mut quiet_since: Option<Instant> = None;
    while t0.elapsed() < Duration::from_secs(60) {
        match cl.poll() {
            Some(Frame::Closed) => break,
            Some(f) => {
                if handle(f, &mut got, &mut ended, &mut file_done, &mut foreign) {
                    last_progress = Instant::now();
                }
            }
            None => {}
        }
        if is_query && ended {
            break;
        }
        if got.len() >= want && (!is_query) {
            // wait a little for surplus messages
            if quiet_since.is_none() {
                quiet_since = Some(Instant::now());
            }
            if quiet_since.unwrap().elapsed() > Duration::from_millis(130) {
                break;
            }
        } else if file_done && last_progress.elapsed() > Duration::from_millis(1500) {
            break; // everything processed, nothing more comes
        } else if last_progress.elapsed() > Duration::from_secs(15) {
            break;
        }
    }
    (got, ended, foreign)
}

fn check_msgs(got: &[RMsg], exp: &[usize], log: &Log, first_pos: usize) -> Option<String> {
    if got.len() != exp.len() {
        return Some(format!("{} messages delivered, expected {} (first expected positions {:?})", got.len(), exp.len(), exp.iter().take(5).collect::<Vec<_>>()));
    }
    for (k, (g, e)) in got.iter().zip(exp.iter()).enumerate() {
        let (m, t) = &log.msgs[*e];
        if g.reception_time == u64::MAX {
            // a text mode line: announced position, index and the header text (date/time tokens depend on the time zone and are skipped)
            let mut w = Vec::new();
            let _ = m.header_as_text_to_write(&mut w);
            let want = String::from_utf8_lossy(&w).to_string();
            let tok = |s: &str| -> Vec<String> { s.split_whitespace().enumerate().filter(|(i, _)| *i != 1 && *i != 2).map(|(_, t)| t.to_string()).collect() };
            if g.index != m.index || g.timestamp_dms as usize != first_pos + k || tok(&g.text) != tok(&want) {
                return Some(format!("text line {} is msg({}) {:?}, expected msg({}) for file position {}: {:?}", k, g.timestamp_dms, g.text, first_pos + k, e, want));
            }
            continue;
        }
        let eh = m.extended_header.as_ref().unwrap();
        let ok = g.index == m.index
            && g.reception_time == m.reception_time_us
            && g.timestamp_dms == m.timestamp_dms
            && g.ecu == m.ecu.as_u32le()
            && g.apid == eh.apid.as_u32le()
            && g.ctid == eh.ctid.as_u32le()
            && g.mcnt == m.standard_header.mcnt
            && g.verb_mstp_mtin == eh.verb_mstp_mtin
            && g.noar == eh.noar
            && (g.htyp & 0x1f) == (m.standard_header.htyp & 0x1f & !0x0c) // WEID/WSID are not written to the file
            && (eh.verb_mstp_mtin & 1 == 0 || &g.text == t);
        if !ok {
            return Some(format!("delivered message {} is {:?}, expected file position {} (index {}, text {:?})", k, g, e, m.index, t));
        }
    }
    None
}

/// a one pass session: open with collect=one_pass_streams (starts paused), create 1-3 one_pass streams, resume; every
/// stream must receive exactly the positions [start, end) of its filtered sequence although the server drains the
/// messages after every round
fn one_pass_session(rep: &mut Report, rng: &mut Rng, srv: &mut Server, logs: &[Log], slow_server: bool) -> Option<(String, String, serde_json::Value)> {
    let log = if slow_server || rng.chance(1, 2) { &logs[1] } else { &logs[2] };
    let n = log.msgs.len();
    let mut cl = match Client::connect(srv.port) {
        Some(c) => c,
        None => {
            rep.inc("inconclusive_connect_failed");
            return None;
        }
    };
    let mut history: Vec<String> = vec![];
    let rp = |history: &Vec<String>| json!({"kind":"c16-bin-one-pass","log_messages": n, "history": history});
    let mut send = |cl: &mut Client, s: String, history: &mut Vec<String>| -> (Option<String>, Vec<Frame>) {
        history.push(s.chars().take(300).collect());
        if !cl.send(&s) {
            return (None, vec![Frame::Closed]);
        }
        cl.wait_reply(Duration::from_secs(60))
    };
    let (r, _) = send(&mut cl, format!("open {}", json!({"files":[log.path], "collect": "one_pass_streams"})), &mut history);
    if !r.as_deref().map_or(false, |r| r.starts_with("ok:")) {
        return Some(("bin:open-failed".into(), format!("{:?} stderr {}", r, srv.stderr_tail()), rp(&history)));
    }
    let mut streams: Vec<(u32, Vec<usize>, usize)> = vec![]; // id, expected file positions, window start
    let mut got: std::collections::HashMap<u32, Vec<RMsg>> = Default::default();
    for _ in 0..1 + rng.usize_below(3) {
        let nf = rng.usize_below(3);
        let fs: Vec<AbsFilter> = (0..nf)
            .map(|_| {
                let k = *rng.pick(&[0u8, 0, 1, 3]);
                let mut f = gen_filter(rng, k);
                f.lifecycles = None;
                f
            })
            .collect();
        let filtered: Vec<usize> = (0..n).filter(|k| spec_keep_set(&fs, &log.msgs[*k].0, &log.msgs[*k].1)).collect();
        let filters_active = fs.iter().any(|f| f.enabled && f.kind != 2);
        let stream_pos: Vec<usize> = if filters_active { filtered } else { (0..n).collect() };
        let (w0, w1) = match rng.below(4) {
            0 => (0, stream_pos.len() + 10),
            1 => (0, 1 + rng.usize_below(30)),
            _ => {
                let a = rng.usize_below(stream_pos.len() + 1);
                (a, a + 1 + rng.usize_below(300))
            }
        };
        let (r, pre) = send(&mut cl, format!("stream {}", json!({"one_pass": true, "window":[w0, w1], "binary": true, "filters": fs.iter().map(to_json_value).collect::<Vec<_>>()})), &mut history);
        let reply = match r {
            Some(r) if r.starts_with("ok:") => r,
            other => return Some(("bin:one-pass-stream-rejected".into(), format!("{:?}", other), rp(&history))),
        };
        let id = match id_of(&reply) {
            Some(i) => i,
            None => return Some(("bin:reply-without-id".into(), reply, rp(&history))),
        };
        if pre.iter().any(|f| matches!(f, Frame::DltMsgs(i, _) if *i == id)) {
            return Some(("bin:data-before-reply".into(), format!("DltMsgs for stream {} arrived before its ok: reply", id), rp(&history)));
        }
        let exp: Vec<usize> = stream_pos.iter().copied().skip(w0).take(w1.saturating_sub(w0)).collect();
        streams.push((id, exp, w0));
    }
    let (r, pre) = send(&mut cl, "resume".to_string(), &mut history);
    if !r.as_deref().map_or(false, |r| r.starts_with("ok:")) {
        return Some(("bin:resume-failed".into(), format!("{:?}", r), rp(&history)));
    }
    let mut take = |f: Frame, got: &mut std::collections::HashMap<u32, Vec<RMsg>>| {
        if let Frame::DltMsgs(i, v) = f {
            got.entry(i).or_default().extend(v);
        }
    };
    for f in pre {
        take(f, &mut got);
    }
    let t0 = Instant::now();
    let mut complete_since: Option<Instant> = None;
    while t0.elapsed() < Duration::from_secs(60) {
        match cl.poll() {
            Some(Frame::Closed) => break,
            Some(f) => take(f, &mut got),
            None => {}
        }
        let all_there = streams.iter().all(|(id, exp, _)| got.get(id).map_or(0, |v| v.len()) >= exp.len());
        if (cl.file_msgs_seen as usize) >= n && all_there {
            // a little longer for surplus messages
            if complete_since.get_or_insert_with(Instant::now).elapsed() > Duration::from_millis(300) {
                break;
            }
        } else if (cl.file_msgs_seen as usize) >= n && complete_since.get_or_insert_with(Instant::now).elapsed() > Duration::from_secs(5) {
            break; // everything was announced 5 s ago: nothing more will come
        }
    }
    if (cl.file_msgs_seen as usize) < n {
        rep.inc("inconclusive_file_not_parsed_in_time");
        return None;
    }
    for (id, exp, w0) in &streams {
        let g = got.get(id).cloned().unwrap_or_default();
        rep.add("messages_compared_field_by_field", g.len() as u64);
        if let Some(d) = check_msgs(&g, exp, log, *w0) {
            return Some(("bin:one-pass-stream-window".into(), format!("one pass stream {} (window start {}): {}", id, w0, d), rp(&history)));
        }
        rep.inc("one_pass_streams_checked");
    }
    let (r, _) = send(&mut cl, "close".to_string(), &mut history);
    if !r.as_deref().map_or(false, |r| r.starts_with("ok:")) {
        return Some(("bin:close-failed".into(), format!("{:?}", r), rp(&history)));
    }
    None
}

fn bin_session(rep: &mut Report, rng: &mut Rng, srv: &mut Server, logs: &[Log], slow_server: bool) -> Option<(String, String, serde_json::Value)> {
    if rng.chance(1, 6) {
        rep.inc("one_pass_sessions");
        return one_pass_session(rep, rng, srv, logs, slow_server);
    }
    let log = match rng.below(10) {
        0 | 1 if !slow_server => &logs[2],
        9 | 8 => &logs[3],
        2..=5 => &logs[1],
        _ => &logs[0],
    };
    let n = log.msgs.len();
    let mut cl = match Client::connect(srv.port) {
        Some(c) => c,
        None => {
            rep.inc("inconclusive_connect_failed");
            return None;
        }
    };
    let mut history: Vec<String> = vec![];
    let mut send = |cl: &mut Client, s: String, history: &mut Vec<String>| -> (Option<String>, Vec<Frame>) {
        history.push(s.chars().take(300).collect());
        if !cl.send(&s) {
            return (None, vec![Frame::Closed]);
        }
        cl.wait_reply(Duration::from_secs(60))
    };
    let rp = |history: &Vec<String>| json!({"kind":"c16-bin","log_messages": n, "history": history});
    macro_rules! fail {
        ($class:expr, $detail:expr) => {
            return Some(($class.to_string(), $detail, rp(&history)))
        };
    }
    // stream creation before / after parsing finished
    // 1/3 of the sessions open the file time sorted (same order for these logs, but the sorted code paths are used)
    let sorted = rng.chance(1, 3);
    if sorted {
        rep.inc("sessions_on_time_sorted_files");
    }
    let (r, _) = send(&mut cl, format!("open {}", json!({"files":[log.path], "sort": sorted})), &mut history);
    if !r.as_deref().map_or(false, |r| r.starts_with("ok:")) {
        fail!("bin:open-failed", format!("{:?} stderr {}", r, srv.stderr_tail()));
    }
    let mut parsed = false;
    let mut wait_parsed = |cl: &mut Client, parsed: &mut bool| {
        if *parsed {
            return;
        }
        let t0 = Instant::now();
        while t0.elapsed() < Duration::from_secs(60) {
            if cl.file_msgs_seen as usize >= n {
                *parsed = true;
                break;
            }
            let _ = cl.poll();
        }
        // the final FileInfo is sent once more after the parser finished: give the loop two more turns
        let _ = cl.collect(Duration::from_millis(200));
    };
    if rng.chance(1, 2) {
        wait_parsed(&mut cl, &mut parsed);
    }
    let nstreams = 1 + rng.usize_below(3);
    for _ in 0..nstreams {
        let nf = rng.usize_below(3);
        let fs: Vec<AbsFilter> = (0..nf)
            .map(|_| {
                let k = *rng.pick(&[0u8, 0, 1, 3]);
                let mut f = gen_filter(rng, k);
                f.lifecycles = None; // lifecycle ids are process global in the server
                f
            })
            .collect();
        let filtered: Vec<usize> = (0..n).filter(|k| spec_keep_set(&fs, &log.msgs[*k].0, &log.msgs[*k].1)).collect();
        let filters_active = fs.iter().any(|f| f.enabled && f.kind != 2);
        let stream_pos: Vec<usize> = if filters_active { filtered.clone() } else { (0..n).collect() };
        let is_query = rng.chance(1, 3);
        if is_query {
            // a query ends on the first idle poll of the server (documented design): only ask once everything arrived
            wait_parsed(&mut cl, &mut parsed);
        }
        // on the large log queries often ask for (nearly) everything: tens of thousands of results pending at once
        let (w0, w1) = match if is_query && n > 10_000 && rng.chance(1, 2) { 2 } else { rng.below(5) } {
            0 => (0, 0),
            1 => (stream_pos.len() + 5, stream_pos.len() + 20),
            2 => (0, stream_pos.len() + 10),
            _ => {
                let a = rng.usize_below(stream_pos.len() + 1);
                (a, a + 1 + rng.usize_below(120))
            }
        };
        let cmd = if is_query { "query" } else { "stream" };
        // 1/4 of the streams in text mode (one text frame per message: "stream:<id> msg(<pos>):<header>")
        let binary = is_query || !rng.chance(1, 4);
        if !binary {
            rep.inc("text_mode_streams");
        }
        let (r, pre) = send(&mut cl, format!("{} {}", cmd, json!({"window":[w0, w1], "binary": binary, "filters": fs.iter().map(to_json_value).collect::<Vec<_>>()})), &mut history);
        let reply = match r {
            Some(r) if r.starts_with("ok:") => r,
            other => fail!("bin:stream-rejected", format!("{:?}", other)),
        };
        let mut id = match id_of(&reply) {
            Some(i) => i,
            None => fail!("bin:reply-without-id", reply),
        };
        // never before the reply announcing the id
        if pre.iter().any(|f| matches!(f, Frame::DltMsgs(i, _) if *i == id) || matches!(f, Frame::StreamText(t) if t.starts_with(&format!("stream:{} ", id)))) {
            fail!("bin:data-before-reply", format!("data for stream {} arrived before its ok: reply", id));
        }
        // a query delivers positions [0, w1) of the filtered sequence? no: [w0, w1) like a stream
        let exp: Vec<usize> = stream_pos.iter().copied().skip(w0).take(w1.saturating_sub(w0)).collect();
        let (got, ended, _foreign) = collect_stream(&mut cl, id, exp.len(), is_query, n as u32, vec![]);
        rep.add("messages_compared_field_by_field", got.len() as u64);
        if got.len() < exp.len() && (cl.file_msgs_seen as usize) < n {
            rep.inc("inconclusive_window_wait_timed_out_while_parsing");
            return None;
        }
        if let Some(d) = check_msgs(&got, &exp, log, w0) {
            let class = if is_query { "bin:query-window" } else { "bin:stream-window" };
            fail!(class, format!("{} window [{},{}) of {} stream positions ({} filters, active {}): {}", cmd, w0, w1, stream_pos.len(), nf, filters_active, d));
        }
        rep.inc("windows_checked");
        if is_query {
            if !ended {
                fail!("bin:query-not-ended", "the query did not end with an empty DltMsgs frame within the time bound".to_string());
            }
            continue;
        }
        // window changes
        for _ in 0..rng.usize_below(3) {
            let a = rng.usize_below(stream_pos.len() + 3);
            let b = a + rng.usize_below(60);
            let (r, pre) = send(&mut cl, format!("stream_change_window {} {},{}", id, a, b), &mut history);
            let reply = match r {
                Some(r) if r.starts_with("ok:") => r,
                other => fail!("bin:change-window-rejected", format!("{:?}", other)),
            };
            let new_id = match id_of(&reply) {
                Some(i) => i,
                None => fail!("bin:reply-without-id", reply),
            };
            if pre.iter().any(|f| matches!(f, Frame::DltMsgs(i, _) if *i == new_id)) {
                fail!("bin:data-before-reply", format!("DltMsgs for stream {} arrived before its ok: reply", new_id));
            }
            id = new_id;
            let exp: Vec<usize> = stream_pos.iter().copied().skip(a).take(b - a).collect();
            let (got, _, _) = collect_stream(&mut cl, id, exp.len(), false, n as u32, vec![]);
            rep.add("messages_compared_field_by_field", got.len() as u64);
            if got.len() < exp.len() && (cl.file_msgs_seen as usize) < n {
                rep.inc("inconclusive_window_wait_timed_out_while_parsing");
                return None;
            }
            if let Some(d) = check_msgs(&got, &exp, log, a) {
                fail!("bin:window-after-change", format!("window [{},{}) after stream_change_window: {}", a, b, d));
            }
            rep.inc("window_changes_checked");
        }
        // make sure the server has all messages (final FileInfo) and ran its loop again so that the stream processed them
        wait_parsed(&mut cl, &mut parsed);
        if !parsed {
            rep.inc("inconclusive_file_not_parsed_in_time");
            return None;
        }
        let _ = cl.collect(Duration::from_millis(200));
        // search paging
        if rng.chance(2, 3) {
            let sf: Vec<AbsFilter> = (0..1 + rng.usize_below(2))
                .map(|_| {
                    let mut f = gen_filter(rng, 0);
                    f.enabled = true;
                    f.lifecycles = None;
                    f
                })
                .collect();
            let mut page = if stream_pos.len() > 150 { stream_pos.len() / (2 + rng.usize_below(8)) + rng.usize_below(3) } else { 1 + rng.usize_below(50) };
            let mut start = rng.usize_below(stream_pos.len() + 2);
            // boundary searches: the page limit is reached at the last stream positions / exactly at the last hits
            let mode = rng.below(6);
            let mut sf = sf;
            if mode == 0 {
                if rng.chance(1, 2) {
                    sf.clear(); // no search filter: every stream position is a hit
                }
                start = stream_pos.len().saturating_sub(1 + rng.usize_below(6));
                page = 1 + rng.usize_below(3);
            } else if mode == 1 {
                let hits = (start..stream_pos.len()).filter(|p| spec_keep_set(&sf, &log.msgs[stream_pos[*p]].0, &log.msgs[stream_pos[*p]].1)).count();
                if hits >= 2 && hits < 3000 {
                    page = match rng.below(3) {
                        0 => hits - 1,
                        1 => hits,
                        _ => 1 + (hits - 1) / 2,
                    };
                    rep.inc("searches_with_page_limit_at_the_last_hits");
                }
            }
            let first_start = start;
            let mut found: Vec<usize> = vec![];
            let mut pages = 0;
            loop {
                let (r, _) = send(&mut cl, format!("stream_search {} {}", id, json!({"start_idx": start, "max_results": page, "filters": sf.iter().map(to_json_value).collect::<Vec<_>>()})), &mut history);
                let reply = match r {
                    Some(r) if r.starts_with("ok:") => r,
                    other => fail!("bin:search-rejected", format!("{:?}", other)),
                };
                let body = reply.splitn(2, '=').nth(1).unwrap_or("{}");
                let v: serde_json::Value = serde_json::from_str(body).unwrap_or(json!({}));
                let idxs: Vec<usize> = v["search_idxs"].as_array().map(|a| a.iter().filter_map(|x| x.as_u64()).map(|x| x as usize).collect()).unwrap_or_default();
                found.extend(idxs);
                pages += 1;
                match v["next_search_idx"].as_u64() {
                    Some(nx) => {
                        if (nx as usize) <= start || pages > 20_000 {
                            fail!("bin:search-paging-no-progress", format!("next_search_idx {} after start {}", nx, start));
                        }
                        start = nx as usize;
                    }
                    None => break,
                }
            }
            let exp: Vec<usize> = (first_start..stream_pos.len()).filter(|p| spec_keep_set(&sf, &log.msgs[stream_pos[*p]].0, &log.msgs[stream_pos[*p]].1)).collect();
            rep.add("search_pages", pages);
            rep.inc("searches_checked");
            if found != exp {
                let missing: Vec<&usize> = exp.iter().filter(|e| !found.contains(e)).take(5).collect();
                let class = if !filters_active && found.is_empty() && !exp.is_empty() {
                    "bin:search:unfiltered-stream-finds-nothing"
                } else if found.len() < exp.len() && pages > 1 {
                    "bin:search:paging-skips-positions"
                } else {
                    "bin:search"
                };
                fail!(class, format!("search from {} with page size {} over {} stream positions (filters active {}): union of {} pages has {} positions, specification {}; first missing {:?}", first_start, page, stream_pos.len(), filters_active, pages, found.len(), exp.len(), missing));
            }
        }
        // lookups
        for _ in 0..2 {
            if n == 0 {
                break;
            }
            let by_index = rng.chance(1, 2);
            let wanted_pos_all = rng.usize_below(n);
            let (q, exp) = if by_index {
                let wi = log.msgs[wanted_pos_all].0.index;
                (format!("index={}", wi), stream_pos.iter().position(|p| log.msgs[*p].0.index >= wi).unwrap_or(stream_pos.len()))
            } else {
                // calculated time = lifecycle start + timestamp; one lifecycle, constant delay: strictly increasing with the position.
                // we ask for the reception time based value only when it is exact: time of message k is start+ts; use a time between two messages via the reply of an exact lookup
                (String::new(), 0)
            };
            let (q, exp) = if !by_index {
                if !log.mono {
                    continue;
                }
                // calculated time of message k = base + k ms (exact, one message per ms)
                let base_ms = 1_600_000_000_000u64;
                let t_ms = base_ms + wanted_pos_all as u64;
                (format!("time_ms={}", t_ms), stream_pos.iter().position(|p| *p >= wanted_pos_all).unwrap_or(stream_pos.len()))
            } else {
                (q, exp)
            };
            let (r, _) = send(&mut cl, format!("stream_binary_search {} {}", id, q), &mut history);
            let reply = match r {
                Some(r) => r,
                None => fail!("bin:lookup-no-reply", q),
            };
            if !reply.starts_with("ok:") {
                fail!("bin:lookup-rejected", format!("{} -> {}", q, reply));
            }
            let body = reply.splitn(2, '=').nth(1).unwrap_or("{}");
            let v: serde_json::Value = serde_json::from_str(body).unwrap_or(json!({}));
            let got = v["filtered_msg_index"].as_u64().map(|x| x as usize);
            rep.inc("lookups_checked");
            if got != Some(exp) {
                let class = if !filters_active { "bin:lookup:unfiltered-stream" } else { "bin:lookup" };
                fail!(class, format!("{} on a stream with {} positions (filters active {}): answered {:?}, first position not before the requested one is {}", q, stream_pos.len(), filters_active, got, exp));
            }
        }
        let (r, _) = send(&mut cl, format!("stop {}", id), &mut history);
        if !r.as_deref().map_or(false, |r| r.starts_with("ok:")) {
            fail!("bin:stop-failed", format!("{:?}", r));
        }
    }
    let (r, _) = send(&mut cl, "close".into(), &mut history);
    if !r.as_deref().map_or(false, |r| r.starts_with("ok:")) {
        fail!("bin:close-failed", format!("{:?}", r));
    }
    let _ = cl.ws.close(None);
    rep.inc("nontrivial");
    rep.sig(fnv(format!("{}/{}/{}", n, nstreams, history.len()).as_bytes()) ^ rng.next_u64() % 64);
    if rep.want_sample() && history.len() < 12 {
        rep.sample(json!({"log_messages": n, "history": history}));
    }
    None
}

pub fn run(p: &Params) -> Report {
    let mut rep = Report::new("C16");
    if p.replay.is_some() {
        rep.note("C16 replay files carry the stream json + arrival batches (library) or the command history (binary)".into());
        return rep;
    }
    let logger = slog::Logger::root(slog::Discard, slog::o!());
    let bin = p.val("adlt_bin");
    let dir = tempfile::tempdir().expect("tempdir");
    let mut rng0 = Rng::new(p.case_seed(0) ^ 0xC16);
    let logs: Vec<Log> = if bin.is_some() {
        vec![write_log(dir.path(), &mut rng0, 0, "empty.dlt"), write_log(dir.path(), &mut rng0, 37, "l37.dlt"), write_log(dir.path(), &mut rng0, 700, "l700.dlt"), write_log(dir.path(), &mut rng0, 20_000, "l20k.dlt"), write_log(dir.path(), &mut rng0, 500, "mono500.dlt")]
    } else {
        vec![]
    };
    // the empty file cannot be opened ("contain no DLT messages"): skip it
    let logs: Vec<Log> = logs.into_iter().filter(|l| !l.msgs.is_empty()).collect();
    let mut srv: Option<Server> = None;
    let mut slow_server = false;
    let lib_only = p.has("lib_only");
    let mut i = 0u64;
    let t_bin_share = if p.thorough { 3 } else { 2 };
    while (p.cases == 0 || i < p.cases) && !p.time_up() {
        let mut rng = Rng::new(p.case_seed(i) ^ 0xC16);
        i += 1;
        let do_bin = bin.is_some() && !lib_only && p.start.elapsed().as_secs_f64() > p.secs / t_bin_share as f64;
        if !do_bin {
            lib_case(&mut rep, &mut rng, &logger);
            continue;
        }
        if srv.is_none() {
            let mut env = vec![];
            match rng.below(3) {
                0 => env.push(("ADLT_VERIF_PAUSE".to_string(), format!("ParserMsg:{}:{}", 1 + rng.below(50), 20 + rng.below(300)))),
                1 => env.push(("ADLT_VERIF_CHAN_CAP".to_string(), (*rng.pick(&[1usize, 4, 64])).to_string())),
                _ => {}
            }
            slow_server = env.iter().any(|e| e.0 == "ADLT_VERIF_CHAN_CAP");
            srv = Server::spawn(bin.as_ref().unwrap(), dir.path(), &env);
            if srv.is_none() {
                rep.inc("inconclusive_server_start");
                continue;
            }
        }
        rep.inc("evaluations");
        rep.inc("bin_sessions");
        let s = srv.as_mut().unwrap();
        for (class, blk) in s.stderr_sanitizer_reports() {
            if class.ends_with("without-repo-frame") {
                rep.note(format!("sanitizer report in the server without a frame in /repo/src: {}", blk.lines().next().unwrap_or("")));
            } else {
                rep.violation(&class, blk.chars().take(1500).collect(), json!({"kind":"c16-bin-sanitizer"}));
            }
        }
        if let Some((class, detail, replay)) = bin_session(&mut rep, &mut rng, s, &logs, slow_server) {
            rep.violation(&class, detail, replay);
            if let Some(s) = srv.take() {
                s.kill();
            }
        }
        if i % 6 == 0 {
            if let Some(s) = srv.take() {
                s.kill();
            }
        }
    }
    if let Some(s) = srv.take() {
        s.kill();
    }
    rep
}
