pub mod c01;
pub mod c02;
pub mod c04;
pub mod gen;
pub mod guard;
pub mod refdlt;
pub mod report;
pub mod rng;
