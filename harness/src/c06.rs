//! C06 a message's lifecycle is published before the message is delivered
//! probe at every delivery point: lookup in the same thread and (rendezvous) in a checker thread,
//! while free running reader threads hammer the table; pause hooks vary the schedule.
use crate::lc::*;
use crate::lcgen::*;
use crate::report::*;
use crate::rng::*;
use adlt::dlt::{DltChar4, DltMessage};
use adlt::lifecycle::{parse_lifecycles_buffered_from_stream, LifecycleId};
use adlt::verif::{clear_pauses, set_pause, snapshot, Point, NR_POINTS, POINT_NAMES};
use serde_json::json;
use std::cell::{Cell, RefCell};
use std::sync::atomic::{AtomicBool, AtomicU64, Ordering};
use std::sync::mpsc::sync_channel;
use std::sync::Arc;

#[derive(Clone, Copy, Debug)]
pub enum Pacing {
    None,
    Yield,
    Spin(u32),
    StallEvery(u32, u32), // every k-th message stall micros
}

pub struct C06Result {
    pub probes_same: u64,
    pub probes_cross: u64,
    pub first_bad: Option<(String, String)>,
    pub census: [u64; NR_POINTS],
    pub concurrent_reads: u64,
    pub panic: Option<crate::guard::PanicInfo>,
}

pub fn run_case(passes: &[Vec<DltMessage>], pacing: Pacing, cross_thread: bool, readers: usize) -> C06Result {
    let before = snapshot();
    let (lcs_r, lcs_w) = new_table();
    let mut lcs_w = Some(lcs_w);
    let stop = Arc::new(AtomicBool::new(false));
    let reads = Arc::new(AtomicU64::new(0));
    let mut reader_threads = vec![];
    for _ in 0..readers {
        let r = lcs_r.clone();
        let stop = stop.clone();
        let reads = reads.clone();
        reader_threads.push(std::thread::spawn(move || {
            let mut n = 0u64;
            let mut acc = 0u64;
            while !stop.load(Ordering::Relaxed) {
                if let Some(rr) = r.read() {
                    for (id, b) in &rr {
                        if let Some(l) = b.get_one() {
                            acc = acc.wrapping_add(l.nr_msgs as u64 + *id as u64 + l.start_time);
                        }
                    }
                }
                n += 1;
                if n % 64 == 0 {
                    std::thread::yield_now();
                }
            }
            reads.fetch_add(n, Ordering::Relaxed);
            acc
        }));
    }
    // checker thread: performs the lookup while the detector is blocked inside outflow
    let (req_tx, req_rx) = sync_channel::<(LifecycleId, DltChar4)>(0);
    let (ans_tx, ans_rx) = sync_channel::<u8>(0);
    let checker = if cross_thread {
        let r2 = lcs_r.clone();
        Some(std::thread::spawn(move || {
            for (id, ecu) in req_rx {
                let res = match r2.get_one(&id) {
                    None => 1u8,
                    Some(l) => {
                        if l.ecu == ecu {
                            0
                        } else {
                            2
                        }
                    }
                };
                if ans_tx.send(res).is_err() {
                    break;
                }
            }
        }))
    } else {
        drop(req_rx);
        drop(ans_tx);
        None
    };
    let probe_r = lcs_r.clone();
    let probes_same = Cell::new(0u64);
    let probes_cross = Cell::new(0u64);
    let first_bad: RefCell<Option<(String, String)>> = RefCell::new(None);
    let delivered = Cell::new(0u64);
    let mut panic = None;
    for input in passes.iter() {
        let w = lcs_w.take().unwrap();
        let (tx, rx) = std::sync::mpsc::channel();
        for m in input.iter() {
            tx.send(m.clone()).unwrap();
        }
        drop(tx);
        let res = crate::guard::catch(|| {
            parse_lifecycles_buffered_from_stream(w, rx, &|m: DltMessage| {
                let k = delivered.get() + 1;
                delivered.set(k);
                // (1) same thread
                probes_same.set(probes_same.get() + 1);
                let r = match probe_r.get_one(&m.lifecycle) {
                    None => 1u8,
                    Some(l) => {
                        if l.ecu == m.ecu {
                            0
                        } else {
                            2
                        }
                    }
                };
                if r != 0 && first_bad.borrow().is_none() {
                    *first_bad.borrow_mut() = Some((
                        if r == 1 { "unpublished-at-delivery:same-thread".into() } else { "foreign-ecu-at-delivery".into() },
                        format!("delivery #{} (index {}, ecu {:?}): lifecycle {} {} in the table at the moment of delivery", k, m.index, m.ecu, m.lifecycle, if r == 1 { "is not visible" } else { "belongs to another ecu" }),
                    ));
                }
                // (2) other thread
                if cross_thread && req_tx.send((m.lifecycle, m.ecu)).is_ok() {
                    if let Ok(r) = ans_rx.recv() {
                        probes_cross.set(probes_cross.get() + 1);
                        if r != 0 && first_bad.borrow().is_none() {
                            *first_bad.borrow_mut() = Some((
                                if r == 1 { "unpublished-at-delivery:cross-thread".into() } else { "foreign-ecu-at-delivery".into() },
                                format!("delivery #{} (index {}, ecu {:?}): lifecycle {} {} for a reader in another thread at the moment of delivery", k, m.index, m.ecu, m.lifecycle, if r == 1 { "is not visible" } else { "belongs to another ecu" }),
                            ));
                        }
                    }
                }
                match pacing {
                    Pacing::None => {}
                    Pacing::Yield => std::thread::yield_now(),
                    Pacing::Spin(n) => {
                        for _ in 0..n {
                            std::hint::spin_loop();
                        }
                    }
                    Pacing::StallEvery(kk, us) => {
                        if k % kk as u64 == 0 {
                            std::thread::sleep(std::time::Duration::from_micros(us as u64));
                        }
                    }
                }
                Ok(())
            })
        });
        match res {
            Ok(w) => lcs_w = Some(w),
            Err(p) => {
                panic = Some(p);
                break;
            }
        }
    }
    stop.store(true, Ordering::Relaxed);
    drop(req_tx);
    if let Some(c) = checker {
        let _ = c.join();
    }
    for t in reader_threads {
        let _ = t.join();
    }
    let after = snapshot();
    let mut census = [0u64; NR_POINTS];
    for i in 0..NR_POINTS {
        census[i] = after[i] - before[i];
    }
    drop(lcs_w);
    C06Result {
        probes_same: probes_same.get(),
        probes_cross: probes_cross.get(),
        first_bad: first_bad.into_inner(),
        census,
        concurrent_reads: reads.load(Ordering::Relaxed),
        panic,
    }
}

fn pick_pacing(rng: &mut Rng) -> (Pacing, u8) {
    match rng.below(8) {
        0..=3 => (Pacing::None, 0),
        4 => (Pacing::Yield, 1),
        5 | 6 => (Pacing::Spin(50 + rng.below(3000) as u32), 2),
        _ => (Pacing::StallEvery(1 + rng.below(40) as u32, 20 + rng.below(2000) as u32), 3),
    }
}

fn set_random_pauses(rng: &mut Rng) -> u8 {
    clear_pauses();
    match rng.below(6) {
        0 => {
            set_pause(Point::LcBetweenUpdateRefresh, 1 + rng.below(3), rng.below(200));
            1
        }
        1 => {
            for p in [Point::LcOutMergeFlush, Point::LcOutConfirmOwn, Point::LcOutConfirmOther, Point::LcOutDirect, Point::LcOutFinalFlush] {
                set_pause(p, 1 + rng.below(7), rng.below(50));
            }
            2
        }
        _ => 0,
    }
}

pub fn run(p: &Params) -> Report {
    let mut rep = Report::new("C06");
    if let Some(path) = &p.replay {
        let v: serde_json::Value = serde_json::from_str(&std::fs::read_to_string(path).expect("read replay")).expect("parse");
        let r = if v.get("replay").is_some() { v["replay"].clone() } else { v };
        let s = scenario_from_json(&r["pass1"]);
        let mut passes = vec![to_dlt(&s, 1)];
        if !r["pass2"].is_null() {
            passes.push(to_dlt(&scenario_from_json(&r["pass2"]), 2));
        }
        let res = run_case(&passes, Pacing::None, true, 1);
        rep.inc("evaluations");
        if let Some((c, d)) = res.first_bad {
            rep.violation(&c, d, r.clone());
        }
        return rep;
    }
    // miri: tiny workloads
    let tiny = p.has("tiny");
    let mut i = 0u64;
    while (p.cases == 0 || i < p.cases) && !p.time_up() {
        let mut rng = Rng::new(p.case_seed(i) ^ 0xC06);
        let (s, s2) = if tiny {
            (gen_scenario(&mut rng, true, 12), None)
        } else {
            gen_case(p, i, &mut rng)
        };
        i += 1;
        let mut passes = vec![to_dlt(&s, i as u32)];
        if let Some(s2) = &s2 {
            passes.push(to_dlt(s2, i as u32 ^ 0x8000_0000));
        }
        let (pacing, pclass) = pick_pacing(&mut rng);
        let hclass = set_random_pauses(&mut rng);
        let cross = tiny || rng.chance(3, 4);
        let readers = if tiny { 1 } else { rng.usize_below(3) };
        let res = run_case(&passes, pacing, cross, readers);
        clear_pauses();
        rep.inc("evaluations");
        rep.add("deliveries_probed_same_thread", res.probes_same);
        rep.add("deliveries_probed_cross_thread", res.probes_cross);
        rep.add("concurrent_table_reads", res.concurrent_reads);
        rep.add("refreshes_on_confirm", res.census[Point::LcBetweenUpdateRefresh as usize]);
        for k in 0..12 {
            if res.census[k] > 0 {
                rep.add(&format!("path_{}", POINT_NAMES[k]), res.census[k]);
            }
        }
        if let Some(pi) = &res.panic {
            rep.violation(&pi.class(), format!("detector panicked at {}:{} {}", pi.file, pi.line, pi.msg.chars().take(100).collect::<String>()), json!({"kind":"c06","pass1": scenario_json(&s), "pass2": s2.as_ref().map(scenario_json)}));
            continue;
        }
        match res.first_bad {
            Some((class, detail)) => rep.violation(&class, detail, json!({"kind":"c06","pass1": scenario_json(&s), "pass2": s2.as_ref().map(scenario_json), "pacing": format!("{:?}", pacing)})),
            None => {
                // non trivial: at least one buffered release path used; signature = set of release paths x pacing class x hook class
                let paths: u8 = (0..5).map(|k| ((res.census[k] > 0) as u8) << k).sum();
                if paths & 0b10111 != 0 {
                    rep.inc("nontrivial");
                    rep.sig(fnv(&[paths, pclass, hclass, cross as u8, readers as u8, (res.census[5] > 0) as u8, (res.census[6] > 0) as u8, s2.is_some() as u8, s.n_ecus as u8]));
                    if rep.want_sample() && s.msgs.len() <= 10 {
                        rep.sample(json!({"scenario": scenario_json(&s), "pacing": format!("{:?}", pacing), "cross_thread_probe": cross, "reader_threads": readers, "deliveries_per_path": (0..5).map(|k| json!([POINT_NAMES[k], res.census[k]])).collect::<Vec<_>>()}));
                    }
                }
            }
        }
    }
    rep
}
