//! panic capture: a global hook records location+message of the last panic per thread
use std::sync::Mutex;

#[derive(Clone, Debug)]
pub struct PanicInfo {
    pub file: String,
    pub line: u32,
    pub msg: String,
    pub thread: String,
}

impl PanicInfo {
    /// class string used for known-finding matching: file (relative to the repo) + normalised message
    pub fn class(&self) -> String {
        let f = self.file.strip_prefix("/repo/").unwrap_or(&self.file);
        let mut m = String::new();
        let mut last_hash = false;
        for c in self.msg.chars().take(200) {
            // cut at quoted / structured content: it depends on the input, not on the site
            if c == '\'' || c == '`' || c == '{' || c == '"' || !c.is_ascii() {
                break;
            }
            if c.is_ascii_digit() {
                if !last_hash {
                    m.push('#');
                    last_hash = true;
                }
            } else {
                last_hash = false;
                m.push(if c == '\n' { ' ' } else { c });
            }
            if m.len() >= 60 {
                break;
            }
        }
        format!("panic@{}:{}", f, m.trim_end())
    }
    pub fn in_repo(&self) -> bool {
        self.file.starts_with("/repo/") || self.file.starts_with("src/")
    }
}

static PANICS: Mutex<Vec<PanicInfo>> = Mutex::new(Vec::new());
static QUIET: std::sync::atomic::AtomicBool = std::sync::atomic::AtomicBool::new(true);

pub fn install_hook() {
    std::panic::set_hook(Box::new(|info| {
        let (file, line) = match info.location() {
            Some(l) => (l.file().to_string(), l.line()),
            None => ("?".to_string(), 0),
        };
        let msg = if let Some(s) = info.payload().downcast_ref::<&str>() {
            s.to_string()
        } else if let Some(s) = info.payload().downcast_ref::<String>() {
            s.clone()
        } else {
            "<non-string panic payload>".to_string()
        };
        let thread = std::thread::current().name().unwrap_or("?").to_string();
        if !QUIET.load(std::sync::atomic::Ordering::Relaxed) {
            eprintln!("panic in thread {} at {}:{}: {}", thread, file, line, msg);
        }
        if let Ok(mut p) = PANICS.lock() {
            if p.len() < 1000 {
                p.push(PanicInfo { file, line, msg, thread });
            }
        }
    }));
}

pub fn set_quiet(q: bool) {
    QUIET.store(q, std::sync::atomic::Ordering::Relaxed);
}

/// take all panics recorded so far (from any thread)
pub fn take_panics() -> Vec<PanicInfo> {
    match PANICS.lock() {
        Ok(mut p) => std::mem::take(&mut *p),
        Err(_) => vec![],
    }
}

/// run f, catching a panic. On panic returns the recorded info (of the last panic).
pub fn catch<F: FnOnce() -> R, R>(f: F) -> Result<R, PanicInfo> {
    let _ = take_panics();
    match std::panic::catch_unwind(std::panic::AssertUnwindSafe(f)) {
        Ok(r) => Ok(r),
        Err(_) => {
            let mut p = take_panics();
            Err(p.pop().unwrap_or(PanicInfo {
                file: "?".into(),
                line: 0,
                msg: "panic without record".into(),
                thread: "?".into(),
            }))
        }
    }
}
