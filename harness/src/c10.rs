//! C10 time sorting is a permutation, and ordered under bounded delay
use crate::lc::new_table;
use crate::lcgen::ecu_id;
use crate::report::*;
use crate::rng::*;
use adlt::dlt::{DltChar4, DltExtendedHeader, DltMessage, DltStandardHeader};
use adlt::lifecycle::Lifecycle;
use adlt::utils::buffer_sort_messages;
use serde_json::json;
use std::cell::RefCell;
use std::collections::HashMap;

const US: u64 = 1_000_000;

#[derive(Clone, Debug)]
pub struct SMsg {
    pub lc: usize, // index into table; usize::MAX = unknown id
    pub ecu: usize,
    pub ts_us: u64,
    pub recv_us: u64,
    pub ctrl_request: bool,
}

pub struct Case {
    /// (ecu, start_time)
    pub table: Vec<(usize, u64)>,
    /// (j, i): table entry j is a lifecycle the detector created as a resume of entry i (i < j, same ECU)
    pub resumes: Vec<(usize, usize)>,
    pub msgs: Vec<SMsg>,
    pub window: u8,
    pub min_delay_us: u64,
    pub premise_by_construction: bool,
}

pub fn gen_case(rng: &mut Rng, thorough: bool) -> Case {
    let n_ecus = 1 + rng.usize_below(4);
    let n_lcs = 1 + rng.usize_below(6);
    let base = 1_600_000_000 * US;
    let mut table = Vec::new();
    for _ in 0..n_lcs {
        let ecu = rng.usize_below(n_ecus);
        // parallel lifecycles: starts within a small range (or far apart)
        let start = base + if rng.chance(1, 2) { rng.below(30 * US) } else { rng.below(3000 * US) };
        table.push((ecu, start / 100 * 100));
    }
    // resume lifecycles (as Lifecycle::update creates them after a reception gap), in 2/3 of them with a start at or
    // before the start of the lifecycle they resume: the calculated time is still "start of the message's lifecycle + timestamp"
    let mut resumes = Vec::new();
    if rng.chance(1, 3) {
        for j in 1..n_lcs {
            if let Some(i) = (0..j).find(|i| table[*i].0 == table[j].0 && !resumes.iter().any(|(r, _)| r == i)) {
                if rng.chance(1, 2) {
                    resumes.push((j, i));
                    if rng.chance(2, 3) {
                        table[j].1 = (table[i].1 - rng.below(8 * US) * rng.below(2)) / 100 * 100;
                    }
                }
            }
        }
    }
    let window = *rng.pick(&[1u8, 1, 2, 3, 3, 5, 10]);
    let min_delay_us = *rng.pick(&[0u64, 1, 100, 1000, 100_000, US, 2 * US, 20 * US, 30 * US]);
    let premise = rng.chance(2, 3);
    let n = if thorough && rng.chance(1, 50) { 1 + rng.usize_below(3000) } else if rng.chance(1, 10) { 1 + rng.usize_below(300) } else { 1 + rng.usize_below(40) };
    let mut msgs = Vec::with_capacity(n);
    let span = *rng.pick(&[100_000u64, US, 5 * US, 30 * US, 200 * US]);
    for _ in 0..n {
        let lc = rng.usize_below(n_lcs);
        let ts = rng.below(span / 100 + 1) * 100;
        let ctrl = rng.chance(1, 25);
        if premise {
            let delay = if min_delay_us == 0 { 0 } else { rng.below(min_delay_us + 1) };
            msgs.push(SMsg { lc, ecu: table[lc].0, ts_us: ts, recv_us: table[lc].1 + ts + delay, ctrl_request: ctrl });
        } else {
            let lc2 = if rng.chance(1, 15) { usize::MAX } else { lc };
            let ecu = if lc2 == usize::MAX { rng.usize_below(n_ecus) } else { table[lc].0 };
            let delay = match rng.below(5) {
                0 => 0,
                1 => rng.below(min_delay_us + 1),
                2 => rng.below(2 * min_delay_us + 1000),
                3 => rng.below(100 * US),
                _ => rng.below(10_000),
            };
            // calculated time may also be beyond reception (capped by the implementation)
            let recv = if rng.chance(1, 10) { (table[lc].1 + ts).saturating_sub(rng.below(5 * US)) } else { table[lc].1 + ts + delay };
            msgs.push(SMsg { lc: lc2, ecu, ts_us: ts, recv_us: recv, ctrl_request: ctrl });
        }
    }
    if premise || rng.chance(1, 2) {
        msgs.sort_by_key(|m| m.recv_us); // stable
    }
    Case { table, resumes, msgs, window, min_delay_us, premise_by_construction: premise }
}

pub struct Built {
    pub resume_lcs_in_table: usize,
    pub lc_ids: Vec<u32>,
    pub starts: HashMap<u32, u64>,
    pub input: Vec<DltMessage>,
}

pub fn run_sort(c: &Case) -> Result<(Built, Vec<DltMessage>, bool), crate::guard::PanicInfo> {
    let (lcs_r, mut lcs_w) = new_table();
    let mut lc_ids = Vec::new();
    let mut starts = HashMap::new();
    let mk = |ecu: usize, recv: u64, ts_dms: u32| DltMessage {
        index: 0,
        reception_time_us: recv,
        ecu: ecu_id(ecu),
        timestamp_dms: ts_dms,
        standard_header: DltStandardHeader { htyp: 0x30, mcnt: 0, len: 8 },
        extended_header: None,
        payload: vec![],
        payload_text: None,
        lifecycle: 0,
    };
    let mut lcs: Vec<Lifecycle> = Vec::new();
    let mut resume_lcs_in_table = 0;
    for (j, (ecu, start)) in c.table.iter().enumerate() {
        let mut lc = match c.resumes.iter().find(|(r, _)| *r == j) {
            Some((_, i)) => {
                // 20 s later in reception, 1 s later in uptime: the detector's own resume detection creates the lifecycle
                let mut m = mk(*ecu, lcs[*i].start_time + 20 * US, 10_000);
                let origin = &mut lcs[*i];
                match origin.update(&mut m, 60 * US) {
                    Some(l) => l,
                    None => Lifecycle::new(&mut mk(*ecu, *start, 0)),
                }
            }
            None => Lifecycle::new(&mut mk(*ecu, *start, 0)),
        };
        lc.start_time = *start;
        if lc.is_resume() {
            resume_lcs_in_table += 1;
        }
        lcs.push(lc);
    }
    // the resumed lifecycles keep the start of the table (update() does not move it for a message that opens a new lifecycle)
    for (j, (_, start)) in c.table.iter().enumerate() {
        lcs[j].start_time = *start;
    }
    for lc in lcs {
        lc_ids.push(lc.id());
        starts.insert(lc.id(), lc.start_time);
        lcs_w.insert(lc.id(), lc);
    }
    lcs_w.refresh();
    let unknown_id = lc_ids.iter().max().copied().unwrap_or(0) + 1000;
    let input: Vec<DltMessage> = c
        .msgs
        .iter()
        .enumerate()
        .map(|(i, m)| {
            let ext = if m.ctrl_request {
                // control request (MSTP 3, MTIN 1), with and without the verbose flag (derived from the message number)
                Some(DltExtendedHeader { verb_mstp_mtin: (3 << 1) | (1 << 4) | ((i as u8 / 2) & 1), noar: 0, apid: DltChar4::from_buf(b"DA1\0"), ctid: DltChar4::from_buf(b"DC1\0") })
            } else {
                None
            };
            DltMessage {
                index: i as u32 * 3 + 7, // strictly increasing
                reception_time_us: m.recv_us,
                ecu: ecu_id(m.ecu),
                timestamp_dms: (m.ts_us / 100) as u32,
                standard_header: DltStandardHeader { htyp: if ext.is_some() { 0x31 } else { 0x30 }, mcnt: i as u8, len: 16 },
                extended_header: ext,
                payload: (i as u32).to_le_bytes().to_vec(),
                payload_text: None,
                lifecycle: if m.lc == usize::MAX { unknown_id } else { lc_ids[m.lc] },
            }
        })
        .collect();
    let (tx, rx) = std::sync::mpsc::channel();
    for m in &input {
        tx.send(m.clone()).unwrap();
    }
    drop(tx);
    let out: RefCell<Vec<DltMessage>> = RefCell::new(Vec::with_capacity(input.len()));
    let res = crate::guard::catch(|| {
        buffer_sort_messages(
            rx,
            &|m| {
                out.borrow_mut().push(m);
                Ok(())
            },
            &lcs_r,
            c.window,
            c.min_delay_us,
        )
    })?;
    drop(lcs_w);
    Ok((Built { resume_lcs_in_table, lc_ids, starts, input }, out.into_inner(), res.is_ok()))
}

fn calc_time(m: &DltMessage, starts: &HashMap<u32, u64>) -> u64 {
    // the harness' own reading of "control request": message type control (3), type info request (1), whatever the verbose flag
    let is_ctrl_request = m.extended_header.as_ref().map_or(false, |e| (e.verb_mstp_mtin >> 1) & 7 == 3 && (e.verb_mstp_mtin >> 4) == 1);
    if is_ctrl_request {
        m.reception_time_us
    } else {
        let c = starts.get(&m.lifecycle).copied().unwrap_or(0) + m.timestamp_dms as u64 * 100;
        c.min(m.reception_time_us)
    }
}

pub fn check(c: &Case, b: &Built, out: &[DltMessage]) -> (Option<(String, String)>, bool, bool) {
    // (1) permutation, unchanged
    let n = b.input.len();
    let mut seen = vec![false; n];
    for (k, m) in out.iter().enumerate() {
        if m.payload.len() != 4 {
            return (Some(("altered".into(), format!("output {} payload changed", k))), false, false);
        }
        let i = u32::from_le_bytes(m.payload[0..4].try_into().unwrap()) as usize;
        if i >= n {
            return (Some(("altered".into(), format!("output {} unknown id {}", k, i))), false, false);
        }
        if seen[i] {
            return (Some(("duplicated".into(), format!("message {} delivered twice", i))), false, false);
        }
        seen[i] = true;
        if m != &b.input[i] {
            return (Some(("altered".into(), format!("message {} changed: {:?} vs {:?}", i, m, b.input[i]))), false, false);
        }
    }
    if out.len() != n {
        return (Some(("lost".into(), format!("{} of {} messages delivered", out.len(), n))), false, false);
    }
    // (2) premise
    let nondecr = b.input.windows(2).all(|w| w[0].reception_time_us <= w[1].reception_time_us);
    let bounded = b.input.iter().all(|m| m.reception_time_us - calc_time(m, &b.starts) <= c.min_delay_us);
    let premise = nondecr && bounded;
    let reordered = out.iter().zip(b.input.iter()).any(|(a, bb)| a.index != bb.index);
    if premise {
        for (k, w) in out.windows(2).enumerate() {
            let (ca, cb) = (calc_time(&w[0], &b.starts), calc_time(&w[1], &b.starts));
            if ca > cb || (ca == cb && w[0].index > w[1].index) {
                return (
                    Some(("not-ordered".into(), format!("premise holds (reception non-decreasing, every delay <= {} us) but output {} (calc {}, index {}) comes before output {} (calc {}, index {})", c.min_delay_us, k, ca, w[0].index, k + 1, cb, w[1].index))),
                    premise,
                    reordered,
                );
            }
        }
    }
    (None, premise, reordered)
}

fn case_json(c: &Case) -> serde_json::Value {
    json!({"kind":"c10","window": c.window, "min_delay_us": c.min_delay_us, "resumes": c.resumes.iter().map(|(j, i)| json!([j, i])).collect::<Vec<_>>(), "table": c.table.iter().map(|(e, s)| json!([e, s])).collect::<Vec<_>>(),
        "msgs": c.msgs.iter().map(|m| json!([if m.lc == usize::MAX { -1 } else { m.lc as i64 }, m.ecu, m.ts_us, m.recv_us, m.ctrl_request as u8])).collect::<Vec<_>>()})
}
fn case_from_json(r: &serde_json::Value) -> Case {
    Case {
        table: r["table"].as_array().unwrap().iter().map(|t| (t[0].as_u64().unwrap() as usize, t[1].as_u64().unwrap())).collect(),
        resumes: r["resumes"].as_array().map(|a| a.iter().map(|t| (t[0].as_u64().unwrap() as usize, t[1].as_u64().unwrap() as usize)).collect()).unwrap_or_default(),
        msgs: r["msgs"].as_array().unwrap().iter().map(|m| SMsg { lc: if m[0].as_i64().unwrap() < 0 { usize::MAX } else { m[0].as_i64().unwrap() as usize }, ecu: m[1].as_u64().unwrap() as usize, ts_us: m[2].as_u64().unwrap(), recv_us: m[3].as_u64().unwrap(), ctrl_request: m[4].as_u64().unwrap() != 0 }).collect(),
        window: r["window"].as_u64().unwrap() as u8,
        min_delay_us: r["min_delay_us"].as_u64().unwrap(),
        premise_by_construction: false,
    }
}

pub fn run(p: &Params) -> Report {
    let mut rep = Report::new("C10");
    if let Some(path) = &p.replay {
        let v: serde_json::Value = serde_json::from_str(&std::fs::read_to_string(path).expect("read")).expect("parse");
        let r = if v.get("replay").is_some() { v["replay"].clone() } else { v };
        let c = case_from_json(&r);
        rep.inc("evaluations");
        match run_sort(&c) {
            Err(pi) => rep.violation(&pi.class(), format!("panic at {}:{} {}", pi.file, pi.line, pi.msg), r.clone()),
            Ok((b, out, _)) => {
                if let (Some((class, detail)), _, _) = check(&c, &b, &out) {
                    rep.violation(&class, detail, r.clone());
                }
            }
        }
        return rep;
    }
    let mut i = 0u64;
    while (p.cases == 0 || i < p.cases) && !p.time_up() {
        let mut rng = Rng::new(p.case_seed(i) ^ 0xC10);
        let c = gen_case(&mut rng, p.thorough);
        i += 1;
        rep.inc("evaluations");
        rep.add("messages", c.msgs.len() as u64);
        match run_sort(&c) {
            Err(pi) => rep.violation(&pi.class(), format!("panic at {}:{} {}", pi.file, pi.line, pi.msg), case_json(&c)),
            Ok((b, out, ok)) => {
                if !ok {
                    rep.violation("send-error", "buffer_sort_messages returned an error although the outflow never failed".into(), case_json(&c));
                    continue;
                }
                let (v, premise, reordered) = check(&c, &b, &out);
                if premise {
                    rep.inc("runs_with_premise_satisfied");
                    if b.resume_lcs_in_table > 0 && c.resumes.iter().any(|(j, i)| c.table[*j].1 <= c.table[*i].1 && c.msgs.iter().any(|m| m.lc == *j)) {
                        rep.inc("premise_runs_with_resume_lifecycle_starting_before_the_resumed_one");
                    }
                }
                rep.add("resume_lifecycles_in_table", b.resume_lcs_in_table as u64);
                if reordered {
                    rep.inc("runs_where_sorting_reordered");
                }
                match v {
                    Some((class, detail)) => rep.violation(&class, detail, case_json(&c)),
                    None => {
                        let lcs_used: std::collections::HashSet<usize> = c.msgs.iter().map(|m| m.lc).collect();
                        if c.msgs.len() >= 3 && lcs_used.len() >= 2 && reordered {
                            rep.inc("nontrivial");
                            let db = match c.min_delay_us { 0 => 0, 1..=1000 => 1, 1001..=1_000_000 => 2, _ => 3 };
                            let ecus: std::collections::HashSet<usize> = c.msgs.iter().map(|m| m.ecu).collect();
                            rep.sig(fnv(&[c.window, db, ecus.len() as u8, lcs_used.len() as u8, premise as u8, (c.msgs.len() / 10).min(30) as u8, c.msgs.iter().any(|m| m.ctrl_request) as u8]));
                            if rep.want_sample() && c.msgs.len() <= 6 && premise {
                                rep.sample(json!({"case": case_json(&c), "output_order": out.iter().map(|m| (m.index - 7) / 3).collect::<Vec<_>>(), "premise_holds": premise}));
                            }
                        }
                    }
                }
            }
        }
    }
    rep
}
