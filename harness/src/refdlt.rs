//! Reference DLT codec, independent of adlt.
//!
//! Encodes an abstract message to bytes and decodes bytes (strictly) back.
//! Spec used (AUTOSAR DLT protocol R1.x):
//!  storage header: "DLT\x01" secs(le32) micros(le32) ecu(4)
//!  serial header:  "DLS\x01"
//!  standard header: htyp(1) mcnt(1) len(be16) [ecu(4) if WEID] [session id (be32) if WSID] [timestamp (be32, 0.1ms) if WTMS]
//!  htyp bits: UEH=0x01 MSBF=0x02 WEID=0x04 WSID=0x08 WTMS=0x10 version=bits 5..7
//!  extended header (if UEH): msin(1) noar(1) apid(4) ctid(4)
//!  len = size of standard header incl. optional fields + extended header + payload

pub const MARKER_STORAGE: [u8; 4] = *b"DLT\x01";
pub const MARKER_SERIAL: [u8; 4] = *b"DLS\x01";

pub const UEH: u8 = 0x01;
pub const MSBF: u8 = 0x02;
pub const WEID: u8 = 0x04;
pub const WSID: u8 = 0x08;
pub const WTMS: u8 = 0x10;

/// reception time adlt assigns to serial framed messages: (2023-1970)*365 days
pub const SERIAL_RECEPTION_SECS: u64 = (2023 - 1970) * 365 * 24 * 60 * 60;
pub const SERIAL_ECU: [u8; 4] = [b'D', b'L', b'S', 0];

#[derive(Clone, Debug, PartialEq, Eq)]
pub struct RefExt {
    pub msin: u8,
    pub noar: u8,
    pub apid: [u8; 4],
    pub ctid: [u8; 4],
}

#[derive(Clone, Debug, PartialEq, Eq)]
pub struct RefMsg {
    pub serial: bool,
    // storage header (ignored for serial):
    pub secs: u32,
    pub micros: u32,
    pub storage_ecu: [u8; 4],
    // standard header:
    pub msbf: bool,
    pub version: u8, // 3 bits
    pub mcnt: u8,
    pub std_ecu: Option<[u8; 4]>,
    pub session_id: Option<u32>,
    pub timestamp: Option<u32>,
    pub ext: Option<RefExt>,
    pub payload: Vec<u8>,
}

impl RefMsg {
    pub fn htyp(&self) -> u8 {
        let mut h = (self.version & 7) << 5;
        if self.ext.is_some() {
            h |= UEH;
        }
        if self.msbf {
            h |= MSBF;
        }
        if self.std_ecu.is_some() {
            h |= WEID;
        }
        if self.session_id.is_some() {
            h |= WSID;
        }
        if self.timestamp.is_some() {
            h |= WTMS;
        }
        h
    }
    /// size of the standard header incl. optional fields and the extended header
    pub fn headers_size(&self) -> usize {
        4 + if self.std_ecu.is_some() { 4 } else { 0 }
            + if self.session_id.is_some() { 4 } else { 0 }
            + if self.timestamp.is_some() { 4 } else { 0 }
            + if self.ext.is_some() { 10 } else { 0 }
    }
    /// the value of the len field
    pub fn len_field(&self) -> usize {
        self.headers_size() + self.payload.len()
    }
    /// max payload size for this header shape
    pub fn max_payload(&self) -> usize {
        65535 - self.headers_size()
    }
    pub fn encoded_size(&self) -> usize {
        (if self.serial { 4 } else { 16 }) + self.len_field()
    }
    /// shape id: 0..63 = (serial?32:0) | UEH|MSBF|WEID|WSID|WTMS bits
    pub fn shape(&self) -> u8 {
        (if self.serial { 32 } else { 0 }) | (self.htyp() & 0x1f)
    }

    /// encode to bytes. `free` (if given) gets one bool per byte: true = byte may be changed
    /// without changing the structure (neither marker nor htyp nor len)
    pub fn encode_into(&self, out: &mut Vec<u8>, mut free: Option<&mut Vec<bool>>) {
        assert!(self.len_field() <= 65535);
        let mut put = |out: &mut Vec<u8>, b: &[u8], f: bool| {
            out.extend_from_slice(b);
            if let Some(fr) = free.as_mut() {
                for _ in 0..b.len() {
                    fr.push(f);
                }
            }
        };
        if self.serial {
            put(out, &MARKER_SERIAL, false);
        } else {
            put(out, &MARKER_STORAGE, false);
            put(out, &self.secs.to_le_bytes(), true);
            put(out, &self.micros.to_le_bytes(), true);
            put(out, &self.storage_ecu, true);
        }
        put(out, &[self.htyp()], false);
        put(out, &[self.mcnt], true);
        put(out, &(self.len_field() as u16).to_be_bytes(), false);
        if let Some(e) = &self.std_ecu {
            put(out, e, true);
        }
        if let Some(s) = &self.session_id {
            put(out, &s.to_be_bytes(), true);
        }
        if let Some(t) = &self.timestamp {
            put(out, &t.to_be_bytes(), true);
        }
        if let Some(x) = &self.ext {
            put(out, &[x.msin, x.noar], true);
            put(out, &x.apid, true);
            put(out, &x.ctid, true);
        }
        put(out, &self.payload, true);
    }
    pub fn encode(&self) -> Vec<u8> {
        let mut v = Vec::with_capacity(self.encoded_size());
        self.encode_into(&mut v, None);
        v
    }

    // what adlt is expected to report:
    pub fn exp_ecu(&self) -> [u8; 4] {
        match self.std_ecu {
            Some(e) => e,
            None => {
                if self.serial {
                    SERIAL_ECU
                } else {
                    self.storage_ecu
                }
            }
        }
    }
    pub fn exp_reception_time_us(&self) -> u64 {
        if self.serial {
            SERIAL_RECEPTION_SECS * 1_000_000
        } else {
            self.secs as u64 * 1_000_000 + self.micros as u64
        }
    }
    pub fn exp_timestamp_dms(&self) -> u32 {
        self.timestamp.unwrap_or(0)
    }
}

#[derive(Debug)]
pub enum DecodeError {
    NoMarker(usize),
    Truncated(usize),
    LenTooSmall(usize),
}

/// strictly decode exactly one message at the start of `b`; returns (msg, consumed)
pub fn decode_one(b: &[u8], serial: bool, at: usize) -> Result<(RefMsg, usize), DecodeError> {
    let mut p = 0usize;
    let need = |p: usize, n: usize| -> Result<(), DecodeError> {
        if b.len() < p + n {
            Err(DecodeError::Truncated(at + p))
        } else {
            Ok(())
        }
    };
    need(p, 4)?;
    let (mut secs, mut micros, mut storage_ecu) = (0u32, 0u32, [0u8; 4]);
    if serial {
        if b[0..4] != MARKER_SERIAL {
            return Err(DecodeError::NoMarker(at));
        }
        p += 4;
    } else {
        if b[0..4] != MARKER_STORAGE {
            return Err(DecodeError::NoMarker(at));
        }
        need(p, 16)?;
        secs = u32::from_le_bytes([b[4], b[5], b[6], b[7]]);
        micros = u32::from_le_bytes([b[8], b[9], b[10], b[11]]);
        storage_ecu = [b[12], b[13], b[14], b[15]];
        p += 16;
    }
    let std_start = p;
    need(p, 4)?;
    let htyp = b[p];
    let mcnt = b[p + 1];
    let len = u16::from_be_bytes([b[p + 2], b[p + 3]]) as usize;
    p += 4;
    let mut hs = 4;
    for f in [WEID, WSID, WTMS] {
        if htyp & f != 0 {
            hs += 4;
        }
    }
    if htyp & UEH != 0 {
        hs += 10;
    }
    if len < hs {
        return Err(DecodeError::LenTooSmall(at + std_start));
    }
    need(std_start, len)?;
    let mut std_ecu = None;
    let mut session_id = None;
    let mut timestamp = None;
    if htyp & WEID != 0 {
        std_ecu = Some([b[p], b[p + 1], b[p + 2], b[p + 3]]);
        p += 4;
    }
    if htyp & WSID != 0 {
        session_id = Some(u32::from_be_bytes([b[p], b[p + 1], b[p + 2], b[p + 3]]));
        p += 4;
    }
    if htyp & WTMS != 0 {
        timestamp = Some(u32::from_be_bytes([b[p], b[p + 1], b[p + 2], b[p + 3]]));
        p += 4;
    }
    let mut ext = None;
    if htyp & UEH != 0 {
        ext = Some(RefExt {
            msin: b[p],
            noar: b[p + 1],
            apid: [b[p + 2], b[p + 3], b[p + 4], b[p + 5]],
            ctid: [b[p + 6], b[p + 7], b[p + 8], b[p + 9]],
        });
        p += 10;
    }
    let payload = b[p..std_start + len].to_vec();
    let consumed = std_start + len;
    Ok((
        RefMsg {
            serial,
            secs,
            micros,
            storage_ecu,
            msbf: htyp & MSBF != 0,
            version: htyp >> 5,
            mcnt,
            std_ecu,
            session_id,
            timestamp,
            ext,
            payload,
        },
        consumed,
    ))
}

/// strictly decode a byte string that consists of back-to-back messages only
pub fn decode_all(b: &[u8], serial: bool) -> Result<Vec<RefMsg>, DecodeError> {
    let mut v = Vec::new();
    let mut p = 0;
    while p < b.len() {
        let (m, c) = decode_one(&b[p..], serial, p)?;
        v.push(m);
        p += c;
    }
    Ok(v)
}

/// positions of all occurrences of either marker
pub fn find_markers(b: &[u8]) -> Vec<usize> {
    let mut v = Vec::new();
    if b.len() < 4 {
        return v;
    }
    for i in 0..=b.len() - 4 {
        if b[i] == b'D' && b[i + 1] == b'L' && b[i + 3] == 1 && (b[i + 2] == b'T' || b[i + 2] == b'S')
        {
            v.push(i);
        }
    }
    v
}
