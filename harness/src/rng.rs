//! small deterministic PRNG (xorshift64*), no external crates.

#[derive(Clone, Debug)]
pub struct Rng {
    s: u64,
}

impl Rng {
    pub fn new(seed: u64) -> Rng {
        // splitmix to avoid weak seeds
        let mut z = seed.wrapping_add(0x9E3779B97F4A7C15);
        z = (z ^ (z >> 30)).wrapping_mul(0xBF58476D1CE4E5B9);
        z = (z ^ (z >> 27)).wrapping_mul(0x94D049BB133111EB);
        z ^= z >> 31;
        Rng {
            s: if z == 0 { 0x1234_5678_9abc_def1 } else { z },
        }
    }
    /// derive an independent generator (e.g. per case)
    pub fn derive(seed: u64, a: u64, b: u64) -> Rng {
        Rng::new(
            seed.wrapping_mul(0x9E3779B97F4A7C15)
                ^ a.wrapping_mul(0xC2B2AE3D27D4EB4F)
                ^ b.wrapping_mul(0x165667B19E3779F9).rotate_left(31),
        )
    }
    #[inline]
    pub fn next_u64(&mut self) -> u64 {
        let mut x = self.s;
        x ^= x >> 12;
        x ^= x << 25;
        x ^= x >> 27;
        self.s = x;
        x.wrapping_mul(0x2545F4914F6CDD1D)
    }
    #[inline]
    pub fn next_u32(&mut self) -> u32 {
        (self.next_u64() >> 32) as u32
    }
    #[inline]
    pub fn next_u8(&mut self) -> u8 {
        (self.next_u64() >> 56) as u8
    }
    /// uniform in 0..n (n>0)
    #[inline]
    pub fn below(&mut self, n: u64) -> u64 {
        debug_assert!(n > 0);
        // multiply-shift; bias negligible for our n
        if n <= 0xffff_ffff {
            ((self.next_u64() >> 32) * n) >> 32
        } else {
            self.next_u64() % n
        }
    }
    #[inline]
    pub fn usize_below(&mut self, n: usize) -> usize {
        if n as u64 > 0xffff_ffff {
            (self.next_u64() % n as u64) as usize
        } else {
            self.below(n as u64) as usize
        }
    }
    /// uniform in a..=b
    #[inline]
    pub fn range(&mut self, a: u64, b: u64) -> u64 {
        debug_assert!(a <= b);
        let span = b - a;
        if span == u64::MAX {
            self.next_u64()
        } else if span + 1 > 0xffff_ffff {
            a + self.next_u64() % (span + 1)
        } else {
            a + self.below(span + 1)
        }
    }
    /// true with probability num/den
    #[inline]
    pub fn chance(&mut self, num: u64, den: u64) -> bool {
        self.below(den) < num
    }
    pub fn pick<'a, T>(&mut self, v: &'a [T]) -> &'a T {
        &v[self.usize_below(v.len())]
    }
    pub fn bytes(&mut self, n: usize) -> Vec<u8> {
        let mut v = Vec::with_capacity(n);
        while v.len() + 8 <= n {
            v.extend_from_slice(&self.next_u64().to_le_bytes());
        }
        while v.len() < n {
            v.push(self.next_u8());
        }
        v
    }
    pub fn shuffle<T>(&mut self, v: &mut [T]) {
        for i in (1..v.len()).rev() {
            let j = self.usize_below(i + 1);
            v.swap(i, j);
        }
    }
}

/// FNV-1a 64 bit hash for signatures
pub fn fnv(data: &[u8]) -> u64 {
    let mut h: u64 = 0xcbf29ce484222325;
    for b in data {
        h ^= *b as u64;
        h = h.wrapping_mul(0x100000001b3);
    }
    h
}
pub fn sig(s: &str) -> u64 {
    fnv(s.as_bytes())
}

pub fn hex(b: &[u8]) -> String {
    let mut s = String::with_capacity(b.len() * 2);
    for x in b {
        s.push_str(&format!("{:02x}", x));
    }
    s
}
pub fn unhex(s: &str) -> Vec<u8> {
    let b = s.as_bytes();
    let mut v = Vec::with_capacity(b.len() / 2);
    let val = |c: u8| -> u8 {
        match c {
            b'0'..=b'9' => c - b'0',
            b'a'..=b'f' => c - b'a' + 10,
            b'A'..=b'F' => c - b'A' + 10,
            _ => 0,
        }
    };
    let mut i = 0;
    while i + 1 < b.len() {
        v.push(val(b[i]) << 4 | val(b[i + 1]));
        i += 2;
    }
    v
}
