//! C18 verbose payloads: encode/decode agreement and canonical text
use crate::report::*;
use crate::rng::*;
use adlt::dlt::{DltArg, DltChar4, DltExtendedHeader, DltMessage, DltStandardHeader};
use adlt::serde_verb_payload::{add_to_serializer, DltVerbArgTypeWrapper, Serializer};
use adlt::utils::payload_from_args;
use serde_json::json;

pub const TI_BOOL: u32 = 0x10;
pub const TI_SINT: u32 = 0x20;
pub const TI_UINT: u32 = 0x40;
pub const TI_FLOA: u32 = 0x80;
pub const TI_STRG: u32 = 0x200;
pub const TI_RAWD: u32 = 0x400;
pub const SCOD_UTF8: u32 = 0x8000;

#[derive(Clone, Debug, PartialEq)]
pub enum Val {
    Bool(bool),
    U8(u8),
    U16(u16),
    U32(u32),
    U64(u64),
    I8(i8),
    I16(i16),
    I32(i32),
    I64(i64),
    F32(u32), // bits (NaN payloads must survive)
    F64(u64),
    Str(String),    // utf8, encoded with a trailing NUL
    StrRaw(Vec<u8>), // "utf8" string with arbitrary bytes (harness encoder only), no NUL added
    Ascii(Vec<u8>), // SCOD ascii, bytes as given (may or may not end with NUL)
    Raw(Vec<u8>),
}

impl Val {
    pub fn type_info(&self) -> u32 {
        match self {
            Val::Bool(_) => TI_BOOL | 1,
            Val::U8(_) => TI_UINT | 1,
            Val::U16(_) => TI_UINT | 2,
            Val::U32(_) => TI_UINT | 3,
            Val::U64(_) => TI_UINT | 4,
            Val::I8(_) => TI_SINT | 1,
            Val::I16(_) => TI_SINT | 2,
            Val::I32(_) => TI_SINT | 3,
            Val::I64(_) => TI_SINT | 4,
            Val::F32(_) => TI_FLOA | 3,
            Val::F64(_) => TI_FLOA | 4,
            Val::Str(_) | Val::StrRaw(_) => TI_STRG | SCOD_UTF8,
            Val::Ascii(_) => TI_STRG,
            Val::Raw(_) => TI_RAWD,
        }
    }
    /// raw bytes as they appear in a payload of the given byte order
    pub fn raw(&self, be: bool) -> Vec<u8> {
        macro_rules! n {
            ($v:expr) => {
                if be {
                    $v.to_be_bytes().to_vec()
                } else {
                    $v.to_le_bytes().to_vec()
                }
            };
        }
        match self {
            Val::Bool(b) => vec![*b as u8],
            Val::U8(v) => vec![*v],
            Val::U16(v) => n!(v),
            Val::U32(v) => n!(v),
            Val::U64(v) => n!(v),
            Val::I8(v) => vec![*v as u8],
            Val::I16(v) => n!(v),
            Val::I32(v) => n!(v),
            Val::I64(v) => n!(v),
            Val::F32(v) => n!(v),
            Val::F64(v) => n!(v),
            Val::Str(s) => {
                let mut b = s.as_bytes().to_vec();
                b.push(0);
                b
            }
            Val::StrRaw(b) | Val::Ascii(b) | Val::Raw(b) => b.clone(),
        }
    }
    /// the 16 bit length field of a variable length argument cannot hold this value (strings: incl. the NUL)
    pub fn unrepresentable(&self) -> bool {
        self.is_var_len() && self.raw(false).len() > 0xffff
    }
    pub fn is_var_len(&self) -> bool {
        matches!(self, Val::Str(_) | Val::StrRaw(_) | Val::Ascii(_) | Val::Raw(_))
    }
    /// canonical text (independent formatter)
    pub fn text(&self) -> String {
        fn clean(s: &str) -> String {
            s.chars().map(|c| if c == '\r' || c == '\n' || c == '\t' { ' ' } else { c }).collect()
        }
        fn strip_nul(b: &[u8]) -> &[u8] {
            if let Some((&0, rest)) = b.split_last() {
                rest
            } else {
                b
            }
        }
        match self {
            Val::Bool(b) => (if *b { "true" } else { "false" }).to_string(),
            Val::U8(v) => v.to_string(),
            Val::U16(v) => v.to_string(),
            Val::U32(v) => v.to_string(),
            Val::U64(v) => v.to_string(),
            Val::I8(v) => v.to_string(),
            Val::I16(v) => v.to_string(),
            Val::I32(v) => v.to_string(),
            Val::I64(v) => v.to_string(),
            Val::F32(v) => format!("{}", f32::from_bits(*v)),
            Val::F64(v) => format!("{}", f64::from_bits(*v)),
            Val::Str(s) => clean(s),
            Val::StrRaw(b) => clean(&String::from_utf8_lossy(strip_nul(b))),
            Val::Ascii(b) => clean(&strip_nul(b).iter().map(|c| cp1252(*c)).collect::<String>()),
            Val::Raw(b) => b.iter().map(|c| format!("{:02x}", c)).collect::<Vec<_>>().join(" "),
        }
    }
    fn short(&self) -> String {
        match self {
            Val::Str(s) if s.len() > 20 => format!("Str(len {})", s.len()),
            Val::StrRaw(b) if b.len() > 20 => format!("StrRaw(len {})", b.len()),
            Val::Ascii(b) if b.len() > 20 => format!("Ascii(len {})", b.len()),
            Val::Raw(b) if b.len() > 20 => format!("Raw(len {})", b.len()),
            v => format!("{:?}", v),
        }
    }
}

/// windows-1252 (WHATWG) decoding of one byte
pub fn cp1252(c: u8) -> char {
    const HI: [u32; 32] = [
        0x20AC, 0x0081, 0x201A, 0x0192, 0x201E, 0x2026, 0x2020, 0x2021, 0x02C6, 0x2030, 0x0160, 0x2039, 0x0152, 0x008D, 0x017D, 0x008F, 0x0090, 0x2018, 0x2019, 0x201C, 0x201D, 0x2022, 0x2013, 0x2014, 0x02DC, 0x2122,
        0x0161, 0x203A, 0x0153, 0x009D, 0x017E, 0x0178,
    ];
    if (0x80..0xa0).contains(&c) {
        char::from_u32(HI[(c - 0x80) as usize]).unwrap()
    } else {
        c as char
    }
}

/// the harness' own encoder
pub fn encode(vals: &[Val], be: bool) -> (Vec<u8>, Vec<usize>) {
    let mut p = Vec::new();
    let mut ends = Vec::new();
    for v in vals {
        let ti = v.type_info();
        p.extend_from_slice(&if be { ti.to_be_bytes() } else { ti.to_le_bytes() });
        let raw = v.raw(be);
        if v.is_var_len() {
            let l = raw.len() as u16;
            p.extend_from_slice(&if be { l.to_be_bytes() } else { l.to_le_bytes() });
        }
        p.extend_from_slice(&raw);
        ends.push(p.len());
    }
    (p, ends)
}

pub fn mk_verbose_msg(payload: Vec<u8>, noar: u8, be: bool) -> DltMessage {
    DltMessage {
        index: 1,
        reception_time_us: 1_600_000_000_000_000,
        ecu: DltChar4::from_buf(b"ECU1"),
        timestamp_dms: 1,
        standard_header: DltStandardHeader { htyp: 0x31 | if be { 2 } else { 0 }, mcnt: 0, len: 0 },
        extended_header: Some(DltExtendedHeader { verb_mstp_mtin: 0x41, noar, apid: DltChar4::from_buf(b"APID"), ctid: DltChar4::from_buf(b"CTID") }),
        payload,
        payload_text: None,
        lifecycle: 0,
    }
}

fn gen_string(rng: &mut Rng) -> String {
    match rng.below(8) {
        0 => String::new(),
        1 => "hello world".into(),
        2 => "line1\nline2\r\ttab".into(),
        3 => "äöü€ ✓ 日本".into(),
        4 => "\0".into(),
        5 => "ends with nul\0".into(),
        6 => {
            let n = rng.usize_below(40);
            (0..n).map(|_| (0x20 + rng.below(0x5f) as u8) as char).collect()
        }
        _ => {
            let n = rng.usize_below(12);
            (0..n).map(|_| char::from_u32(*rng.pick(&[0x9u32, 0xa, 0xd, 0x41, 0xe4, 0x20ac, 0x1f600, 0x7f, 0x0])).unwrap()).collect()
        }
    }
}
fn gen_bytes(rng: &mut Rng, huge: bool) -> Vec<u8> {
    if huge && rng.chance(1, 50) {
        // around the limit of the 16 bit length field (65536 cannot be represented)
        let n = *rng.pick(&[65532usize, 65533, 65534, 65535, 65535, 65536]);
        return rng.bytes(n);
    }
    match rng.below(5) {
        0 => vec![],
        1 => vec![0],
        2 => b"abc\0".to_vec(),
        3 => {
            let n = rng.usize_below(30);
            (0..n).map(|_| *rng.pick(&[0u8, 9, 10, 13, 0x41, 0x80, 0x81, 0x9f, 0xa0, 0xff, 0xc3, 0x28, 0xe2, 0x82])).collect()
        }
        _ => {
            let n = rng.usize_below(60);
            rng.bytes(n)
        }
    }
}

pub fn gen_val(rng: &mut Rng, serde_compatible: bool, huge: bool) -> Val {
    let k = rng.below(if serde_compatible { 14 } else { 15 });
    let ext64 = [0u64, 1, u64::MAX, i64::MAX as u64, i64::MIN as u64, 0x8000_0000, 0xffff_ffff];
    match k {
        0 => Val::Bool(rng.chance(1, 2)),
        1 => Val::U8(*rng.pick(&[0u8, 1, 127, 128, 255])),
        2 => Val::U16(if rng.chance(1, 2) { rng.next_u32() as u16 } else { *rng.pick(&[0u16, 1, 255, 256, u16::MAX]) }),
        3 => Val::U32(if rng.chance(1, 2) { rng.next_u32() } else { *rng.pick(&[0u32, 1, u32::MAX, 1 << 31]) }),
        4 => Val::U64(if rng.chance(1, 2) { rng.next_u64() } else { *rng.pick(&ext64) }),
        5 => Val::I8(*rng.pick(&[0i8, -1, 1, i8::MIN, i8::MAX])),
        6 => Val::I16(if rng.chance(1, 2) { rng.next_u32() as i16 } else { *rng.pick(&[0i16, -1, i16::MIN, i16::MAX]) }),
        7 => Val::I32(if rng.chance(1, 2) { rng.next_u32() as i32 } else { *rng.pick(&[0i32, -1, i32::MIN, i32::MAX]) }),
        8 => Val::I64(if rng.chance(1, 2) { rng.next_u64() as i64 } else { *rng.pick(&ext64) as i64 }),
        9 => Val::F32(if rng.chance(1, 2) { rng.next_u32() } else { *rng.pick(&[0u32, 0x8000_0000, 0x7f80_0000, 0xff80_0000, 0x7fc0_0000, 0x7fc0_0001, 0x3f80_0000, 1, 0x7f7f_ffff]) }),
        10 => Val::F64(if rng.chance(1, 2) { rng.next_u64() } else { *rng.pick(&[0u64, 1 << 63, 0x7ff0_0000_0000_0000, 0xfff0_0000_0000_0000, 0x7ff8_0000_0000_0000, 0x3ff0_0000_0000_0000, 1, 0x7fef_ffff_ffff_ffff]) }),
        11 => {
            if huge && rng.chance(1, 60) {
                // incl. the NUL: 65534 / 65535 fit into the length field, 65536 / 65537 do not
                Val::Str("x".repeat(*rng.pick(&[65533usize, 65534, 65534, 65535, 65535, 65536])))
            } else {
                Val::Str(gen_string(rng))
            }
        }
        12 => {
            let mut b = gen_bytes(rng, false);
            if serde_compatible && b.last() != Some(&0) {
                b.push(0); // the wrapper's contract: incl. the 0 termination
            }
            Val::Ascii(b)
        }
        13 => Val::Raw(gen_bytes(rng, huge)),
        _ => Val::StrRaw(gen_bytes(rng, false)),
    }
}

fn encode_serde(vals: &[Val]) -> Option<Vec<u8>> {
    let mut s = Serializer { output: Vec::new() };
    for v in vals {
        let r = match v {
            Val::Bool(x) => add_to_serializer(&mut s, x),
            Val::U8(x) => add_to_serializer(&mut s, x),
            Val::U16(x) => add_to_serializer(&mut s, x),
            Val::U32(x) => add_to_serializer(&mut s, x),
            Val::U64(x) => add_to_serializer(&mut s, x),
            Val::I8(x) => add_to_serializer(&mut s, x),
            Val::I16(x) => add_to_serializer(&mut s, x),
            Val::I32(x) => add_to_serializer(&mut s, x),
            Val::I64(x) => add_to_serializer(&mut s, x),
            Val::F32(x) => add_to_serializer(&mut s, &f32::from_bits(*x)),
            Val::F64(x) => add_to_serializer(&mut s, &f64::from_bits(*x)),
            Val::Str(x) => add_to_serializer(&mut s, &x.as_str()),
            Val::Ascii(b) => add_to_serializer(&mut s, &DltVerbArgTypeWrapper::DltScodAscii(serde_bytes::Bytes::new(b))),
            Val::Raw(b) => add_to_serializer(&mut s, &serde_bytes::Bytes::new(b)),
            Val::StrRaw(_) => return None,
        };
        if r.is_err() {
            return None;
        }
    }
    Some(s.output)
}

fn encode_from_args(vals: &[Val], be: bool) -> Vec<u8> {
    let raws: Vec<Vec<u8>> = vals.iter().map(|v| v.raw(be)).collect();
    let args: Vec<DltArg> = vals.iter().zip(raws.iter()).map(|(v, r)| DltArg { type_info: v.type_info(), is_big_endian: be, payload_raw: r }).collect();
    payload_from_args(&args)
}

/// decode with the real iterator; returns (type_info, raw) list
fn decode(msg: &DltMessage) -> Vec<(u32, Vec<u8>)> {
    let mut v = Vec::new();
    for a in msg {
        v.push((a.type_info, a.payload_raw.to_vec()));
    }
    v
}

fn check_full(vals: &[Val], payload: Vec<u8>, be: bool, enc: &str) -> Option<(String, String)> {
    // (a payload of more than 65535-22 bytes cannot be carried by one message, but encode/decode agreement is
    // about the payload: the argument iterator does not look at the header length)
    let msg = mk_verbose_msg(payload, vals.len() as u8, be);
    let dec = decode(&msg);
    if dec.len() != vals.len() {
        let empty_var = vals.iter().any(|v| v.is_var_len() && v.raw(be).is_empty());
        let class = if enc == "payload_from_args" && empty_var { "count:payload_from_args-empty-string-or-raw" } else { "count" };
        return Some((format!("{}:{}", enc, class), format!("{} arguments decoded, {} encoded: {:?}", dec.len(), vals.len(), vals.iter().map(|v| v.short()).collect::<Vec<_>>())));
    }
    for (k, (v, (ti, raw))) in vals.iter().zip(dec.iter()).enumerate() {
        if *ti != v.type_info() {
            return Some((format!("{}:type", enc), format!("argument {}: type_info {:x} expected {:x}", k, ti, v.type_info())));
        }
        if raw != &v.raw(be) {
            return Some((format!("{}:raw", enc), format!("argument {} ({}): raw bytes differ ({} vs {} bytes)", k, v.short(), raw.len(), v.raw(be).len())));
        }
    }
    let exp: String = vals.iter().map(|v| v.text()).collect::<Vec<_>>().join(" ");
    match msg.payload_as_text() {
        Ok(t) => {
            if t != exp {
                let tt: String = t.chars().take(80).collect();
                let ee: String = exp.chars().take(80).collect();
                return Some((format!("{}:text", enc), format!("text {:?} expected {:?} for {:?}", tt, ee, vals.iter().map(|v| v.short()).collect::<Vec<_>>())));
            }
        }
        Err(e) => return Some((format!("{}:text-error", enc), format!("{:?}", e))),
    }
    None
}

fn case_json(vals: &[Val], be: bool) -> serde_json::Value {
    let (p, _) = encode(vals, be);
    let ph = if p.len() < 2000 { hex(&p) } else { format!("<{} bytes>", p.len()) };
    json!({"kind":"c18","big_endian": be, "values": vals.iter().map(|v| v.short()).collect::<Vec<_>>(), "payload_hex": ph})
}

pub fn run(p: &Params) -> Report {
    let mut rep = Report::new("C18");
    if p.replay.is_some() {
        rep.note("C18 replay files carry the value list and the payload hex".into());
        return rep;
    }
    let tiny = p.has("tiny");
    let mut i = 0u64;
    while (p.cases == 0 || i < p.cases) && !p.time_up() {
        let mut rng = Rng::new(p.case_seed(i) ^ 0xC18);
        i += 1;
        let serde_ok = rng.chance(1, 2);
        let n = if tiny { rng.usize_below(4) } else if rng.chance(1, 10) { rng.usize_below(13) } else { rng.usize_below(6) };
        let huge = !tiny && (p.thorough || rng.chance(1, 4));
        let vals: Vec<Val> = (0..n).map(|_| gen_val(&mut rng, serde_ok, huge)).collect();
        let be = rng.chance(1, 2);
        rep.inc("evaluations");
        rep.add("arguments", n as u64);
        if vals.iter().any(|v| v.unrepresentable()) {
            // a value whose length does not fit the 16 bit length field: the library's encoder has to refuse it
            rep.inc("unrepresentable_lengths_offered");
            if serde_ok {
                match crate::guard::catch(|| encode_serde(&vals)) {
                    Err(pi) => rep.violation(&pi.class(), format!("panic at {}:{} {}", pi.file, pi.line, pi.msg), case_json(&vals, be)),
                    Ok(Some(pl)) => rep.violation("serde:accepted-unrepresentable-length", format!("the serializer returned Ok ({} bytes) for {:?} although a length does not fit into 16 bit", pl.len(), vals.iter().map(|v| v.short()).collect::<Vec<_>>()), case_json(&vals, be)),
                    Ok(None) => rep.inc("unrepresentable_lengths_refused"),
                }
            }
            continue;
        }
        let res = crate::guard::catch(|| -> Option<(String, String)> {
            // (c) harness encoder, both byte orders
            for b in [be, !be] {
                let (pl, _) = encode(&vals, b);
                if let Some(v) = check_full(&vals, pl, b, "harness-encoder") {
                    return Some(v);
                }
            }
            // (a) serde serializer (host = little endian)
            if serde_ok {
                if let Some(pl) = encode_serde(&vals) {
                    if let Some(v) = check_full(&vals, pl, cfg!(target_endian = "big"), "serde") {
                        return Some(v);
                    }
                }
            }
            // (b) payload_from_args
            if !vals.is_empty() {
                let pl = encode_from_args(&vals, be);
                if let Some(v) = check_full(&vals, pl, be, "payload_from_args") {
                    return Some(v);
                }
            }
            None
        });
        match res {
            Err(pi) => {
                rep.violation(&pi.class(), format!("panic at {}:{} {}", pi.file, pi.line, pi.msg), case_json(&vals, be));
                continue;
            }
            Ok(Some((class, detail))) => {
                rep.violation(&class, detail, case_json(&vals, be));
                continue;
            }
            Ok(None) => {}
        }
        // prefix property: every truncation point
        let (pl, ends) = encode(&vals, be);
        let total = pl.len();
        if total <= 4000 {
            let full: Vec<(u32, Vec<u8>)> = vals.iter().map(|v| (v.type_info(), v.raw(be))).collect();
            let mut bad = None;
            let mut maximal = 0u64;
            for k in 0..total {
                let msg = mk_verbose_msg(pl[..k].to_vec(), vals.len() as u8, be);
                let r = crate::guard::catch(|| {
                    let d = decode(&msg);
                    let _ = msg.payload_as_text();
                    d
                });
                match r {
                    Err(pi) => {
                        bad = Some((pi.class(), format!("truncation at {} of {}: panic at {}:{} {}", k, total, pi.file, pi.line, pi.msg)));
                        break;
                    }
                    Ok(d) => {
                        if d.len() > full.len() || d[..] != full[..d.len()] {
                            bad = Some(("prefix:truncation".into(), format!("payload truncated at {} of {} decodes to {} arguments that are not a prefix of the original", k, total, d.len())));
                            break;
                        }
                        let complete = ends.iter().filter(|e| **e <= k).count();
                        if d.len() > complete {
                            bad = Some(("prefix:reads-beyond-truncation".into(), format!("payload truncated at {} holds {} complete arguments but {} were decoded", k, complete, d.len())));
                            break;
                        }
                        if d.len() == complete {
                            maximal += 1;
                        }
                    }
                }
            }
            rep.add("truncation_points", total as u64);
            rep.add("truncations_decoding_all_complete_arguments", maximal);
            if let Some((c, d)) = bad {
                rep.violation(&c, d, case_json(&vals, be));
                continue;
            }
            // single field corruptions of argument k that are detectable
            if !vals.is_empty() {
                let k = rng.usize_below(vals.len());
                let start = if k == 0 { 0 } else { ends[k - 1] };
                let mut c = pl.clone();
                let kind = rng.below(5);
                let bad_ti: u32 = match kind {
                    0 => 0,                                      // no type bit
                    1 => vals[k].type_info() | 0x800,            // VARI (unsupported)
                    2 => vals[k].type_info() | 0x1000,           // FIXP (unsupported)
                    3 => (vals[k].type_info() & !0xf) | 0x7,     // impossible width
                    _ => vals[k].type_info(),
                };
                let mut detectable = kind < 3 || (kind == 3 && !vals[k].is_var_len() && !matches!(vals[k], Val::Bool(_)));
                c[start..start + 4].copy_from_slice(&if be { bad_ti.to_be_bytes() } else { bad_ti.to_le_bytes() });
                if kind == 4 {
                    if vals[k].is_var_len() {
                        // length beyond the payload
                        let l: u16 = (total - start) as u16 + 1 + rng.below(1000) as u16;
                        c[start + 4..start + 6].copy_from_slice(&if be { l.to_be_bytes() } else { l.to_le_bytes() });
                        detectable = true;
                    } else {
                        detectable = false;
                    }
                }
                let msg = mk_verbose_msg(c, vals.len() as u8, be);
                let r = crate::guard::catch(|| {
                    let d = decode(&msg);
                    let _ = msg.payload_as_text();
                    d
                });
                rep.inc("corruptions");
                rep.inc(&format!("corruption_kind_{}", kind));
                match r {
                    Err(pi) => {
                        rep.violation(&pi.class(), format!("corruption kind {} of argument {}: panic at {}:{} {}", kind, k, pi.file, pi.line, pi.msg), case_json(&vals, be));
                        continue;
                    }
                    Ok(d) => {
                        if detectable && (d.len() > k || d[..] != full[..d.len()]) {
                            rep.violation("prefix:corruption", format!("detectable corruption (kind {}) of argument {} decodes to {} arguments / not a prefix", kind, k, d.len()), case_json(&vals, be));
                            continue;
                        }
                    }
                }
                // undetectable: random byte flips -> only "no panic"
                let mut c2 = pl.clone();
                for _ in 0..1 + rng.usize_below(3) {
                    let at = rng.usize_below(c2.len());
                    c2[at] ^= 1 << rng.below(8);
                }
                let msg = mk_verbose_msg(c2, vals.len() as u8, be);
                if let Err(pi) = crate::guard::catch(|| {
                    let _ = decode(&msg);
                    let _ = msg.payload_as_text();
                }) {
                    rep.violation(&pi.class(), format!("bit flips: panic at {}:{} {}", pi.file, pi.line, pi.msg), case_json(&vals, be));
                    continue;
                }
            }
        }
        let kinds: std::collections::BTreeSet<u32> = vals.iter().map(|v| v.type_info()).collect();
        if kinds.len() >= 2 {
            rep.inc("nontrivial");
            let seq: Vec<u8> = vals.iter().map(|v| ((v.type_info() >> 4) as u8) ^ (v.type_info() as u8 & 0xf) ^ ((v.type_info() >> 8) as u8)).collect();
            rep.sig(fnv(&seq));
            if rep.want_sample() && total < 60 {
                rep.sample(json!({"values": vals.iter().map(|v| v.short()).collect::<Vec<_>>(), "big_endian": be, "payload_hex": hex(&pl), "text": vals.iter().map(|v| v.text()).collect::<Vec<_>>().join(" ")}));
            }
        }
    }
    rep
}
