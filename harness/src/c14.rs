//! C14 convert selects exactly what its options say, and writes what it selected (binary level)
use crate::filt::*;
use crate::lc::run_detector;
use crate::lcgen::*;
use crate::refdlt::*;
use crate::report::*;
use crate::rng::*;
use adlt::dlt::{DltChar4, DltExtendedHeader, DltMessage};
use serde_json::json;
use std::collections::{BTreeSet, HashMap};
use std::path::{Path, PathBuf};
use std::process::{Command, Stdio};
use std::time::{Duration, Instant};

pub struct GenFile {
    pub path: PathBuf,
    /// messages in file order with their unique text
    pub msgs: Vec<(DltMessage, String)>,
}

fn run_adlt(bin: &str, args: &[String], cwd: &Path) -> Option<(bool, String, String)> {
    let mut c = Command::new(bin);
    c.arg("convert").args(args).env("TZ", "UTC").current_dir(cwd).stdout(Stdio::piped()).stderr(Stdio::piped()).stdin(Stdio::null());
    let child = c.spawn().ok()?;
    let t0 = Instant::now();
    let out = wait_with_timeout(child, Duration::from_secs(120))?;
    let _ = t0;
    Some((out.0, String::from_utf8_lossy(&out.1).to_string(), String::from_utf8_lossy(&out.2).to_string()))
}

fn wait_with_timeout(mut child: std::process::Child, d: Duration) -> Option<(bool, Vec<u8>, Vec<u8>)> {
    use std::io::Read;
    let mut so = child.stdout.take()?;
    let mut se = child.stderr.take()?;
    let t1 = std::thread::spawn(move || {
        let mut v = Vec::new();
        let _ = so.read_to_end(&mut v);
        v
    });
    let t2 = std::thread::spawn(move || {
        let mut v = Vec::new();
        let _ = se.read_to_end(&mut v);
        v
    });
    let t0 = Instant::now();
    loop {
        match child.try_wait() {
            Ok(Some(st)) => {
                let o = t1.join().ok()?;
                let e = t2.join().ok()?;
                return Some((st.success(), o, e));
            }
            Ok(None) => {
                if t0.elapsed() > d {
                    let _ = child.kill();
                    let _ = child.wait();
                    return None;
                }
                std::thread::sleep(Duration::from_millis(2));
            }
            Err(_) => return None,
        }
    }
}

/// generate 1-4 files. every message has a unique text "f<file>m<pos> <word>"
fn gen_files(rng: &mut Rng, dir: &Path) -> Vec<GenFile> {
    let nfiles = 1 + rng.usize_below(4);
    let mut files = Vec::new();
    let same_ecus = rng.chance(1, 3);
    let mut used_first_times: BTreeSet<u64> = BTreeSet::new();
    for fi in 0..nfiles {
        let hostile = rng.chance(1, 4);
        let s = gen_scenario(rng, hostile, 60);
        let mut msgs = to_dlt(&s, fi as u32);
        let mut out = Vec::new();
        let ecu_shift = if same_ecus { 0 } else { fi };
        let mut t_prev = 0u64;
        for (k, m) in msgs.iter_mut().enumerate() {
            // distinct ECU populations per file unless same_ecus
            let e = ECUS[(ecu_index(&m.ecu) + ecu_shift * 2) % ECUS.len()];
            m.ecu = DltChar4::from_buf(e);
            // reception times: unique over all files (us digit = file number), non decreasing inside a file
            let mut t = m.reception_time_us / 10 * 10 + fi as u64;
            if t <= t_prev {
                t = t_prev + 10;
            }
            t_prev = t;
            m.reception_time_us = t.min(4_000_000_000_000_000);
            let text = format!("f{}m{} {}", fi, k, rng.pick(&TEXTS));
            if m.extended_header.as_ref().map_or(true, |e| e.verb_mstp_mtin == 0x41) {
                let vmm = *rng.pick(&[0x41u8, 0x41, 0x21, 0x31, 0x61]);
                if rng.chance(1, 8) {
                    m.extended_header = None;
                    m.standard_header.htyp &= !1;
                    m.payload = (k as u32).to_le_bytes().to_vec();
                } else {
                    m.extended_header = Some(DltExtendedHeader { verb_mstp_mtin: vmm, noar: 1, apid: DltChar4::from_buf(*rng.pick(&APIDS)), ctid: DltChar4::from_buf(*rng.pick(&APIDS)) });
                    m.standard_header.htyp |= 1;
                    m.payload = verbose_string_payload(&text, false);
                }
            }
            out.push((m.clone(), text));
        }
        // distinct first reception times between the files
        if let Some(first) = out.first() {
            if !used_first_times.insert(first.0.reception_time_us) {
                continue;
            }
        } else {
            continue;
        }
        let mut bytes = Vec::new();
        let garbage = rng.chance(1, 3);
        for (m, _) in &out {
            if garbage && rng.chance(1, 4) {
                let n = 1 + rng.usize_below(30);
                let mut g = rng.bytes(n);
                for b in g.iter_mut() {
                    if *b == b'D' {
                        *b = b'd'; // marker free
                    }
                }
                bytes.extend_from_slice(&g);
            }
            m.to_write(&mut bytes).unwrap();
        }
        let path = dir.join(format!("in{}.dlt", fi));
        std::fs::write(&path, &bytes).unwrap();
        files.push(GenFile { path, msgs: out });
    }
    // 1/6: a twin of the first file: same ECU set, the SAME first message (equal first reception time, e.g. a capture
    // split at one timestamp), the other messages 5 us later with their own texts. The order independence clause does not
    // apply to such inputs (the caller skips the permutation), everything else does.
    if !files.is_empty() && files[0].msgs.len() >= 2 && rng.chance(1, 6) {
        let fi = files.len();
        let mut out = Vec::new();
        for (k, (m, t)) in files[0].msgs.iter().enumerate() {
            let mut m = m.clone();
            let mut text = t.clone();
            if k > 0 {
                m.reception_time_us += 5; // the us digit of generated messages is the file number 0..3
                text = format!("f{}m{} twin", fi, k);
                if m.extended_header.as_ref().map_or(false, |e| e.verb_mstp_mtin & 1 == 1 && (e.verb_mstp_mtin >> 1) & 7 == 0) {
                    m.payload = verbose_string_payload(&text, false);
                }
            }
            out.push((m, text));
        }
        let mut bytes = Vec::new();
        for (m, _) in &out {
            m.to_write(&mut bytes).unwrap();
        }
        let path = dir.join(format!("in{}_twin.dlt", fi));
        std::fs::write(&path, &bytes).unwrap();
        files.push(GenFile { path, msgs: out });
    }
    files
}

/// two files start with the same message (equal first reception time)
fn has_twin(files: &[GenFile]) -> bool {
    files.last().map_or(false, |f| f.path.to_string_lossy().ends_with("_twin.dlt"))
}

fn ecu_index(e: &DltChar4) -> usize {
    (0..6).find(|i| &ecu_id(*i) == e).unwrap_or(0)
}

/// parse the index of every output line of the -a/-x/-s styles
fn parse_indices(stdout: &str) -> Option<Vec<u32>> {
    let mut v = Vec::new();
    for l in stdout.lines() {
        if l.is_empty() {
            continue;
        }
        let tok = l.split(' ').next()?;
        match tok.parse::<u32>() {
            Ok(i) => v.push(i),
            Err(_) => return None,
        }
    }
    Some(v)
}

fn days_from_civil(y: i64, m: i64, d: i64) -> i64 {
    let y = if m <= 2 { y - 1 } else { y };
    let era = if y >= 0 { y } else { y - 399 } / 400;
    let yoe = y - era * 400;
    let doy = (153 * (if m > 2 { m - 3 } else { m + 9 }) + 2) / 5 + d - 1;
    let doe = yoe * 365 + yoe / 4 - yoe / 100 + doy;
    era * 146097 + doe - 719468
}

/// identify the messages of the reference output by their (unique) reception time: "idx YYYY/MM/DD HH:MM:SS.ffffff ..."
fn parse_reference(stdout: &str) -> Option<Vec<(u32, u64)>> {
    let mut v = Vec::new();
    for l in stdout.lines() {
        if l.is_empty() {
            continue;
        }
        let mut it = l.split(' ');
        let idx: u32 = it.next()?.parse().ok()?;
        let date = it.next()?;
        let time = it.next()?;
        let mut dp = date.split('/');
        let (y, mo, d): (i64, i64, i64) = (dp.next()?.parse().ok()?, dp.next()?.parse().ok()?, dp.next()?.parse().ok()?);
        let mut tp = time.split(':');
        let (h, mi): (i64, i64) = (tp.next()?.parse().ok()?, tp.next()?.parse().ok()?);
        let sec = tp.next()?;
        let mut sp = sec.split('.');
        let (s, us): (i64, i64) = (sp.next()?.parse().ok()?, sp.next()?.parse().ok()?);
        let t = ((days_from_civil(y, mo, d) * 86400 + h * 3600 + mi * 60 + s) * 1_000_000 + us) as u64;
        v.push((idx, t));
    }
    Some(v)
}

pub struct RefInput {
    /// unfiltered merged input in index order: (file, pos)
    pub order: Vec<(usize, usize)>,
}

#[derive(Clone, Debug)]
struct Opts {
    b: Option<u32>,
    e: Option<u32>,
    lcs: Vec<u32>,
    eac: Vec<AbsFilter>,
    ffile: Option<(String, Vec<AbsFilter>)>, // format, filters
    sort: bool,
    style: &'static str,
    out: bool,
}

fn eac_expr(f: &AbsFilter) -> String {
    let part = |c: &Option<IdCrit>| match c {
        None => String::new(),
        Some(IdCrit::Lit(s)) => s.clone(),
        Some(IdCrit::Regex(i)) => ID_REGEX[*i].to_string(),
    };
    let s = format!("{}:{}:{}", part(&f.ecu), part(&f.apid), part(&f.ctid));
    s.trim_end_matches(':').to_string()
}

fn gen_opts(rng: &mut Rng, n: usize, n_lcs: u32) -> Opts {
    let mut o = Opts { b: None, e: None, lcs: vec![], eac: vec![], ffile: None, sort: false, style: "-a", out: false };
    if rng.chance(1, 3) {
        o.b = Some(rng.below(n as u64 + 2) as u32);
    }
    if rng.chance(1, 3) {
        o.e = Some(rng.below(n as u64 + 2) as u32);
    }
    if rng.chance(1, 3) && n_lcs > 0 {
        let k = 1 + rng.usize_below(2);
        o.lcs = (0..k).map(|_| 1 + rng.below(n_lcs as u64 + 1) as u32).collect();
    }
    if rng.chance(1, 3) {
        let k = 1 + rng.usize_below(3);
        for _ in 0..k {
            let mut f = AbsFilter::new(0);
            for which in 0..3 {
                if rng.chance(1, 2) {
                    let c = if rng.chance(1, 3) { IdCrit::Regex(rng.usize_below(ID_REGEX.len() - 1)) } else { IdCrit::Lit(rng.pick(&["ECU1", "ECU2", "EC", "ABCD", "APID", "AP", "SYS", "CTAP", "ZZU1", "B"]).to_string()) };
                    match which {
                        0 => f.ecu = Some(c),
                        1 => f.apid = Some(c),
                        _ => f.ctid = Some(c),
                    }
                }
            }
            if f.ecu.is_none() && f.apid.is_none() && f.ctid.is_none() {
                f.ecu = Some(IdCrit::Lit("ECU1".into()));
            }
            o.eac.push(f);
        }
    }
    if rng.chance(1, 4) {
        if rng.chance(1, 2) {
            let k = 1 + rng.usize_below(3);
            let mut fs = Vec::new();
            for _ in 0..k {
                // positive, negative and - without any effect on what convert selects - marker (2) and event (3) filters
                let kind = *rng.pick(&[0u8, 0, 1, 2, 3]);
                let mut f = gen_filter(rng, kind);
                f.not = false;
                f.lifecycles = None;
                if let Some(IdCrit::Regex(_)) = f.ecu {
                    f.ecu = None;
                }
                if !matches!(f.vmm, None | Some(VmmCrit::Mstp(3))) {
                    f.vmm = None;
                }
                if let Some(PayloadCrit::Text(t)) = &f.payload {
                    if t.is_empty() || t.trim() != t {
                        f.payload = None;
                    }
                }
                if f.payload.is_none() {
                    f.ignore_case = false;
                }
                if dlf_expressible(&f) {
                    fs.push(f);
                }
            }
            if !fs.is_empty() {
                o.ffile = Some(("dlf".into(), fs));
            }
        } else {
            let k = 1 + rng.usize_below(3);
            let fs: Vec<AbsFilter> = (0..k)
                .map(|_| {
                    let mut f = AbsFilter::new(0);
                    f.apid = Some(IdCrit::Lit(rng.pick(&["APID", "AP", "SYS", "ABCD", "B"]).to_string()));
                    f.ctid = Some(IdCrit::Lit(rng.pick(&["APID", "CTAP", "AP", "ZZU1", "ECU1"]).to_string()));
                    f
                })
                .collect();
            o.ffile = Some(("convert".into(), fs));
        }
    }
    o.sort = rng.chance(1, 5);
    o.style = *rng.pick(&["-a", "-a", "-a", "-x", "-s", ""]);
    o.out = rng.chance(1, 2) || o.style.is_empty();
    o
}

fn case(rep: &mut Report, rng: &mut Rng, bin: &str, case_no: u64) {
    let dir = match tempfile::tempdir() {
        Ok(d) => d,
        Err(_) => {
            rep.inc("inconclusive_tempdir");
            return;
        }
    };
    let files = gen_files(rng, dir.path());
    if files.is_empty() {
        return;
    }
    let total: usize = files.iter().map(|f| f.msgs.len()).sum();
    let file_args: Vec<String> = files.iter().map(|f| f.path.to_string_lossy().to_string()).collect();
    let rp = |extra: serde_json::Value| json!({"kind":"c14","case": case_no, "files": files.iter().map(|f| f.msgs.len()).collect::<Vec<_>>(), "extra": extra});
    // reference invocation without any selection
    let mut a = vec!["-a".to_string()];
    a.extend(file_args.iter().cloned());
    let (ok, stdout, stderr) = match run_adlt(bin, &a, dir.path()) {
        Some(r) => r,
        None => {
            rep.inc("inconclusive_binary_timeout");
            return;
        }
    };
    rep.inc("evaluations");
    rep.inc("invocations");
    if !ok || stderr.contains("panicked at") {
        rep.violation("reference-run-failed", format!("adlt convert -a failed: {}", stderr.chars().take(300).collect::<String>()), rp(json!(null)));
        return;
    }
    let reference = match parse_reference(&stdout) {
        Some(r) => r,
        None => {
            rep.violation("reference-output-unparsable", stdout.chars().take(300).collect(), rp(json!(null)));
            return;
        }
    };
    // validate: multiset equal, per file order kept, indices consecutive from 0, sorted by reception time if every file is
    // (the first message of a twin file is identical to the first message of file 0: either assignment is right)
    let mut by_time: HashMap<u64, Vec<(usize, usize)>> = HashMap::new();
    for (fi, f) in files.iter().enumerate() {
        for (k, (m, _)) in f.msgs.iter().enumerate() {
            by_time.entry(m.reception_time_us).or_default().push((fi, k));
        }
    }
    if reference.len() != total {
        rep.violation("reference:count", format!("{} messages printed, {} generated", reference.len(), total), rp(json!(null)));
        return;
    }
    let mut next_pos = vec![0usize; files.len()];
    let mut order: Vec<(usize, usize)> = Vec::with_capacity(total);
    for (k, (idx, t)) in reference.iter().enumerate() {
        if *idx != k as u32 {
            rep.violation("reference:index", format!("line {} has index {}", k, idx), rp(json!(null)));
            return;
        }
        match by_time.get(t).and_then(|c| c.iter().find(|(fi, pos)| next_pos[*fi] == *pos).or(c.first())) {
            Some((fi, pos)) => {
                if next_pos[*fi] != *pos {
                    rep.violation("reference:per-file-order", format!("output line {}: message {} of file {} but its predecessor in the file was not emitted yet (expected position {})", k, pos, fi, next_pos[*fi]), rp(json!(null)));
                    return;
                }
                order.push((*fi, *pos));
                next_pos[*fi] += 1;
            }
            None => {
                rep.violation("reference:unknown-message", format!("output line {} has a reception time {} that no generated message has", k, t), rp(json!(null)));
                return;
            }
        }
    }
    let merged: Vec<&(DltMessage, String)> = order.iter().map(|(f, p)| &files[*f].msgs[*p]).collect();
    if merged.windows(2).any(|w| w[0].0.reception_time_us > w[1].0.reception_time_us) && files.len() > 1 {
        // every file is sorted by construction: the merge must be too, unless two files share their ECU set (then they are chained)
        let sets: Vec<BTreeSet<[u8; 4]>> = files.iter().map(|f| f.msgs.iter().map(|m| *m.0.ecu.as_buf()).collect()).collect();
        let shares = (0..sets.len()).any(|a| (0..sets.len()).any(|b| a != b && sets[a] == sets[b]));
        if !shares {
            rep.violation("reference:not-sorted", "all files are sorted by reception time and have different ECU sets, but the merged output is not sorted".into(), rp(json!(null)));
            return;
        }
    }
    // lifecycle oracle: library detector on the merged sequence (ids normalised to start at 1 like in a fresh process)
    let mut probe = merged[0].0.clone();
    let base = adlt::lifecycle::Lifecycle::new(&mut probe).id();
    let seq: Vec<DltMessage> = merged
        .iter()
        .enumerate()
        .map(|(k, (m, _))| {
            let mut m = m.clone();
            m.index = k as u32;
            m.lifecycle = 0;
            // what the binary sees after reading the file: WEID/WSID are not written
            m
        })
        .collect();
    let lr = run_detector(&[seq], false);
    if lr.detector_panic.is_some() || lr.out[0].len() != total {
        rep.inc("aborted_by_detector_panic");
        return;
    }
    let lc_of: Vec<u32> = lr.out[0].iter().map(|m| m.lifecycle - base).collect();
    let n_lcs = lr.table.len() as u32;
    // the option combinations
    let n_inv = 3;
    for inv in 0..n_inv {
        let o = gen_opts(rng, total, n_lcs + 1);
        let mut args: Vec<String> = vec![];
        if !o.style.is_empty() {
            args.push(o.style.to_string());
        }
        if let Some(b) = o.b {
            args.push("-b".into());
            args.push(b.to_string());
        }
        if let Some(e) = o.e {
            args.push("-e".into());
            args.push(e.to_string());
        }
        if !o.lcs.is_empty() {
            args.push(format!("--lcs={}", o.lcs.iter().map(|l| l.to_string()).collect::<Vec<_>>().join(",")));
        }
        if !o.eac.is_empty() {
            args.push(format!("--eac={}", o.eac.iter().map(eac_expr).collect::<Vec<_>>().join(",")));
        }
        let mut all_filters: Vec<AbsFilter> = vec![];
        if let Some((fmt, fs)) = &o.ffile {
            let p = dir.path().join(format!("filter{}.{}", inv, if fmt == "dlf" { "dlf" } else { "txt" }));
            let content = if fmt == "dlf" { to_dlf(fs) } else { fs.iter().map(to_convert_format).collect::<String>() };
            std::fs::write(&p, content).unwrap();
            args.push("-f".into());
            args.push(p.to_string_lossy().to_string());
            all_filters.extend(fs.iter().cloned());
        }
        all_filters.extend(o.eac.iter().cloned());
        if o.sort {
            args.push("--sort".into());
        }
        let out_path = dir.path().join(format!("out{}.dlt", inv));
        if o.out {
            args.push("-o".into());
            args.push(out_path.to_string_lossy().to_string());
        }
        // permutation of the file arguments
        let mut fa = file_args.clone();
        let permuted = rng.chance(1, 2) && fa.len() > 1 && !has_twin(&files);
        if permuted {
            rng.shuffle(&mut fa);
        }
        args.extend(fa.iter().cloned());
        let (ok, stdout, stderr) = match run_adlt(bin, &args, dir.path()) {
            Some(r) => r,
            None => {
                rep.inc("inconclusive_binary_timeout");
                continue;
            }
        };
        rep.inc("invocations");
        let optset: Vec<&str> = [("b", o.b.is_some()), ("e", o.e.is_some()), ("lcs", !o.lcs.is_empty()), ("eac", !o.eac.is_empty()), ("f-dlf", o.ffile.as_ref().map_or(false, |f| f.0 == "dlf")), ("f-conv", o.ffile.as_ref().map_or(false, |f| f.0 == "convert")), ("sort", o.sort), ("o", o.out), ("perm", permuted)].iter().filter(|x| x.1).map(|x| x.0).collect();
        let rpi = || rp(json!({"args": args.iter().map(|a| if a.starts_with('/') { a.rsplit('/').next().unwrap_or("").to_string() } else { a.clone() }).collect::<Vec<_>>(), "eac": o.eac.iter().map(eac_expr).collect::<Vec<_>>(), "filter_file": o.ffile.as_ref().map(|f| json!({"format": f.0, "filters": f.1.iter().map(to_json_value).collect::<Vec<_>>()}))}));
        if !ok || stderr.contains("panicked at") {
            rep.violation("convert-failed", format!("adlt convert {:?} failed: {}", optset, stderr.chars().take(300).collect::<String>()), rpi());
            continue;
        }
        // the model
        let selected: Vec<usize> = (0..total)
            .filter(|k| {
                let (m, t) = merged[*k];
                let idx = *k as u32;
                let in_window = o.b.map_or(true, |b| idx >= b) && o.e.map_or(true, |e| idx <= e);
                let in_lcs = o.lcs.is_empty() || o.lcs.contains(&lc_of[*k]);
                let mut mm = m.clone();
                mm.lifecycle = lc_of[*k];
                let text = if m.is_verbose() { t.clone() } else { String::new() };
                let pos: Vec<&AbsFilter> = all_filters.iter().filter(|f| f.enabled && f.kind == 0).collect();
                let neg: Vec<&AbsFilter> = all_filters.iter().filter(|f| f.enabled && f.kind == 1).collect();
                let uses_text = all_filters.iter().any(|f| f.payload.is_some());
                let _ = uses_text;
                let by_filters = (pos.is_empty() || pos.iter().any(|f| spec_matches(f, &mm, &text))) && !neg.iter().any(|f| spec_matches(f, &mm, &text));
                in_window && in_lcs && by_filters
            })
            .collect();
        // payload text criteria on messages without unique text (non verbose) are ambiguous for the model: skip those cases
        let ambiguous = all_filters.iter().any(|f| f.payload.is_some()) && merged.iter().any(|(m, _)| !m.is_verbose());
        if ambiguous {
            rep.inc("skipped_payload_filter_on_nonverbose");
            continue;
        }
        if !o.style.is_empty() {
            let got = match parse_indices(&stdout) {
                Some(g) => g,
                None => {
                    rep.violation("output-unparsable", stdout.chars().take(200).collect(), rpi());
                    continue;
                }
            };
            let exp: Vec<u32> = selected.iter().map(|k| *k as u32).collect();
            let same = if o.sort {
                let mut a = got.clone();
                a.sort_unstable();
                a == exp
            } else {
                got == exp
            };
            if !same {
                let missing: Vec<&u32> = exp.iter().filter(|e| !got.contains(e)).take(5).collect();
                let extra: Vec<&u32> = got.iter().filter(|g| !exp.contains(g)).take(5).collect();
                let class = if !missing.is_empty() || !extra.is_empty() { format!("selection:{}", optset.iter().filter(|o| **o != "o" && **o != "perm").copied().collect::<Vec<_>>().join("+")) } else { "selection:order-or-duplicates".to_string() };
                rep.violation(&class, format!("options {:?}: emitted {} messages, model selects {} of {}; missing {:?} extra {:?}", optset, got.len(), exp.len(), total, missing, extra), rpi());
                continue;
            }
        } else if !o.sort && all_filters.is_empty() && o.lcs.is_empty() && o.b.is_none() && o.e.is_none() {
            // no style: the lifecycle listing is printed
            if let Some(l) = stdout.lines().find(|l| l.starts_with("have ") && l.contains("lifecycles")) {
                let n: Option<u32> = l.split(' ').nth(1).and_then(|x| x.parse().ok());
                rep.inc("lifecycle_listings_compared");
                if n != Some(n_lcs) {
                    rep.violation("lifecycle-listing-count", format!("convert lists {:?} lifecycles, the library detector {} on the same sequence", n, n_lcs), rpi());
                    continue;
                }
            }
        }
        if o.out {
            let bytes = std::fs::read(&out_path).unwrap_or_default();
            match decode_all(&bytes, false) {
                Err(e) => {
                    rep.violation("output-file:not-decodable", format!("{:?}", e), rpi());
                    continue;
                }
                Ok(ms) => {
                    let mut exp_bytes: Vec<Vec<u8>> = selected
                        .iter()
                        .map(|k| {
                            let mut v = Vec::new();
                            merged[*k].0.to_write(&mut v).unwrap();
                            v
                        })
                        .collect();
                    let mut got_bytes: Vec<Vec<u8>> = ms.iter().map(|m| m.encode()).collect();
                    if o.sort {
                        exp_bytes.sort();
                        got_bytes.sort();
                    }
                    rep.inc("output_files_decoded");
                    rep.add("output_file_messages", ms.len() as u64);
                    if exp_bytes != got_bytes {
                        rep.violation(&format!("output-file:{}", if got_bytes.len() != exp_bytes.len() { "count" } else { "content" }), format!("options {:?}: -o file holds {} messages, model selects {}", optset, got_bytes.len(), exp_bytes.len()), rpi());
                        continue;
                    }
                }
            }
        }
        let n_sel = [o.b.is_some() || o.e.is_some(), !o.lcs.is_empty(), !o.eac.is_empty(), o.ffile.is_some(), o.sort].iter().filter(|x| **x).count();
        if n_sel >= 2 {
            rep.inc("nontrivial");
            rep.sig(fnv(optset.join("+").as_bytes()));
        }
        for a in &optset {
            for b in &optset {
                if a < b {
                    rep.sig(fnv(format!("pair:{}+{}", a, b).as_bytes()) | 1 << 63);
                }
            }
        }
        if rep.want_sample() && total < 40 {
            rep.sample(json!({"files": files.iter().map(|f| f.msgs.len()).collect::<Vec<_>>(), "options": optset, "selected": selected.len(), "of": total, "lifecycles": n_lcs}));
        }
    }
}

pub fn run(p: &Params) -> Report {
    let mut rep = Report::new("C14");
    if p.replay.is_some() {
        rep.note("C14 replay files carry the option list and filter definitions; inputs are regenerated from the seed".into());
        return rep;
    }
    let bin = match p.val("adlt_bin") {
        Some(b) => b,
        None => {
            rep.note("adlt_bin= argument missing".into());
            return rep;
        }
    };
    let mut i = 0u64;
    while (p.cases == 0 || i < p.cases) && !p.time_up() {
        let mut rng = Rng::new(p.case_seed(i) ^ 0xC14);
        i += 1;
        case(&mut rep, &mut rng, &bin, i);
    }
    rep
}
