use vmon::c20::*;
fn main() {
    let members = vec![
        Member { name: "a/b.dlt".into(), data: vec![1; 7] },
        Member { name: "./dot.dlt".into(), data: vec![2; 2] },
        Member { name: "a/b.dlt".into(), data: vec![3; 2002] },
        Member { name: "a/".into(), data: vec![] },
        Member { name: "dir/sub/".into(), data: vec![] },
    ];
    for skip in 0..members.len() {
        let mut m2 = members.clone();
        m2.remove(skip);
        let z = write_zip(&m2);
        let r = adlt::utils::unzip::list_archive_contents(adlt::utils::seekablechain::SeekableChain::new(vec![std::io::Cursor::new(z.clone())]));
        println!("without {}: {:?} direct zip: {:?}", members[skip].name, r.is_ok(), zip::ZipArchive::new(std::io::Cursor::new(z)).map(|a| a.len()));
    }
    let zip = write_zip(&members);
    println!("full direct: {:?} len {}", zip::ZipArchive::new(std::io::Cursor::new(zip.clone())).map(|a| a.len()), zip.len());
    let d = tempfile::tempdir().unwrap();
    let p = d.path().join("t.zip");
    std::fs::write(&p, &zip).unwrap();
    let f = std::fs::File::open(&p).unwrap();
    let chain = adlt::utils::seekablechain::SeekableChain::new(vec![f]);
    println!("list: {:?}", adlt::utils::unzip::list_archive_contents(chain));
    let arg = format!("{}!/*.dlt", p.display());
    println!("path_and_glob: {:?}", adlt::utils::unzip::archive_get_path_and_glob(std::path::Path::new(&arg)));
    let log = slog::Logger::root(slog::Discard, slog::o!());
    let mut td = vec![];
    let sc = std::sync::Arc::new(std::sync::atomic::AtomicBool::new(false));
    println!("extract: {:?}", adlt::utils::unzip::extract_archives(arg, &mut td, &sc, &log));
}
