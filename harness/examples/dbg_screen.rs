//! development aid: how well does a census based pre-screen concentrate scenarios (not part of any check)
use adlt::verif::{Point, POINT_NAMES};
use vmon::c06::{run_case, Pacing};
use vmon::lcgen::*;
use vmon::rng::Rng;
fn main() {
    let n: u64 = std::env::args().nth(1).and_then(|s| s.parse().ok()).unwrap_or(100000);
    let mut tot = 0u64;
    let mut bad = 0u64;
    let mut sel = 0u64;
    let mut sel_bad = 0u64;
    let mut sel2 = 0u64;
    let mut sel2_bad = 0u64;
    for i in 0..n {
        let mut rng = Rng::new(i * 7919 + 13);
        let hostile = rng.chance(1, 2);
        let mx = 40 + rng.usize_below(260);
        let s = if rng.chance(1, 4) { gen_targeted(&mut rng) } else { gen_scenario(&mut rng, hostile, mx) };
        let input = to_dlt(&s, i as u32);
        let r = run_case(&[input], Pacing::None, false, 0);
        tot += 1;
        let b = r.first_bad.is_some();
        bad += b as u64;
        let c = |p: Point| r.census[p as usize];
        let s1 = c(Point::LcOutMergeFlush) > 0 && c(Point::LcOutConfirmOther) > 0;
        let s2 = s1 && c(Point::LcMergeBuffered) > 0 && s.n_ecus >= 2;
        if s1 { sel += 1; sel_bad += b as u64; }
        if s2 { sel2 += 1; sel2_bad += b as u64; }
    }
    let _ = POINT_NAMES;
    println!("total {} bad {} | screen1 {} bad {} | screen2 {} bad {}", tot, bad, sel, sel_bad, sel2, sel2_bad);
}
